/-
Props/C07.lean — property C07: every regularization scheme returns a symmetric positive
(semi-)definite matrix of the linear object's size, with the stated quadratic form.

All theorems are about the `Impl` layer of Model/Regularization.lean (the loop transliterations of
`regularization_util.py` etc., which the driver executes against the Python), for every number of
pixels, every neighbour table / cross-point table, every coefficient and every vector `x`, over an
arbitrary ordered field `α` (so in particular over ℝ).  `ρ` is the code's `1e-8` ridge; only
`0 < ρ` is used.

Notation: `quad H x = Σ_i Σ_j x_i H_ij x_j`; `entry H i j = H[i,j]`; `x.getD i 0 = x_i`;
`edges n N S` = the directed pairs `(i, N[i][j])`, `j < S[i]`, read by the loops; `pairs n N S` = those
with `i < j` (each unordered neighbouring pair once, when the table is symmetric);
`Symmetric n N S` = reversing all directed pairs permutes the list; `InRange n N S` = every
neighbour index read is `< n` (otherwise numpy raises).
-/
import Model.Regularization
import Proofs.Regularization
import Proofs.RegularizationSplit
import Proofs.RegularizationSplitFrom
import Proofs.RegularizationKernel
import Proofs.RegularizationGaussPD
import Proofs.RegularizationBlock
import Proofs.RegularizationRect
import Proofs.RegularizationDelaunay
import Proofs.RegularizationReduced
import Proofs.RegularizationSignals
import Proofs.RegularizationExpPD
import Mathlib.Analysis.Real.Sqrt
import Mathlib.Analysis.SpecialFunctions.Pow.Real
import Mathlib.Analysis.Complex.Exponential

open Model hiding entry entry_zeros
open Model.Mat Model.Spec

set_option linter.unusedSectionVars false

namespace C07

variable {α : Type} [Field α] [LinearOrder α] [IsStrictOrderedRing α]

/-! ## (a) constant scheme -/

/-- size = parameter count: `constant_regularization_matrix_from` returns an `n×n` array -/
theorem constant_dims (ρ c : α) (N : List (List Nat)) (S : List Nat) (hR : InRange N.length N S) :
    Dims N.length (Impl.constantMatrix ρ c N S) :=
  (constantMatrix_linfun (linfun_entry N.length 0 0) ρ c N S rfl hR).1

/-- (a) for *any* in-range neighbour table:
    `xᵀHx = c²·Σ_i Σ_{j∈N(i)} (x_i² − x_i x_j) + ρ·Σ x_i²` -/
theorem constant_quad (ρ c : α) (N : List (List Nat)) (S : List Nat) (hR : InRange N.length N S)
    (x : List α) (hx : x.length = N.length) :
    quad (Impl.constantMatrix ρ c N S) x
      = (c * c) * ((edges N.length N S).map fun e =>
            x.getD e.1 0 * x.getD e.1 0 - x.getD e.1 0 * x.getD e.2 0).sum
        + ρ * sumSq x :=
  constantMatrix_quad ρ c N S rfl hR x hx

/-- (a) the property's statement: with a symmetric neighbour relation,
    `xᵀHx = coefficient²·Σ_{neighbouring pairs {i,j}} (x_i − x_j)² + ρ·|x|²` -/
theorem constant_quad_pairs (ρ c : α) (N : List (List Nat)) (S : List Nat)
    (hR : InRange N.length N S) (hS : Symmetric N.length N S) (x : List α)
    (hx : x.length = N.length) :
    quad (Impl.constantMatrix ρ c N S) x
      = (c * c) * ((pairs N.length N S).map fun e =>
            (x.getD e.1 0 - x.getD e.2 0) * (x.getD e.1 0 - x.getD e.2 0)).sum
        + ρ * sumSq x :=
  constantMatrix_quad_pairs ρ c N S rfl hR hS x hx

/-- (a) symmetric -/
theorem constant_symm (ρ c : α) (N : List (List Nat)) (S : List Nat) (hR : InRange N.length N S)
    (hS : Symmetric N.length N S) (i j : Nat) :
    entry (Impl.constantMatrix ρ c N S) i j = entry (Impl.constantMatrix ρ c N S) j i :=
  constantMatrix_symm ρ c N S rfl hR hS i j

/-- (a) strictly positive definite: `xᵀHx > 0` for every `x ≠ 0` -/
theorem constant_posdef (ρ c : α) (hρ : 0 < ρ) (N : List (List Nat)) (S : List Nat)
    (hR : InRange N.length N S) (hS : Symmetric N.length N S) (x : List α)
    (hx : x.length = N.length) (hx0 : ∃ i, i < N.length ∧ x.getD i 0 ≠ 0) :
    0 < quad (Impl.constantMatrix ρ c N S) x :=
  constantMatrix_posdef ρ c hρ N S rfl hR hS x hx hx0

/-! ### constant + zeroth: the same matrix with `ρ + c₀²` on the diagonal -/

theorem constant_zeroth_dims (ρ c cz : α) (N : List (List Nat)) (S : List Nat)
    (hR : InRange N.length N S) : Dims N.length (Impl.constantZerothMatrix ρ c cz N S) :=
  (constantZerothMatrix_linfun (linfun_entry N.length 0 0) ρ c cz N S rfl hR).1

/-- constant-zeroth adds `c₀²·|x|²` -/
theorem constant_zeroth_quad (ρ c cz : α) (N : List (List Nat)) (S : List Nat)
    (hR : InRange N.length N S) (hS : Symmetric N.length N S) (x : List α)
    (hx : x.length = N.length) :
    quad (Impl.constantZerothMatrix ρ c cz N S) x
      = (c * c) * ((pairs N.length N S).map fun e =>
            (x.getD e.1 0 - x.getD e.2 0) * (x.getD e.1 0 - x.getD e.2 0)).sum
        + ρ * sumSq x + (cz * cz) * sumSq x := by
  rw [(constantZerothMatrix_linfun (linfun_quad N.length x hx) ρ c cz N S rfl hR).2,
    constantMatrix_quad_pairs (ρ + cz * cz) c N S rfl hR hS x hx]
  ring

theorem constant_zeroth_symm (ρ c cz : α) (N : List (List Nat)) (S : List Nat)
    (hR : InRange N.length N S) (hS : Symmetric N.length N S) (i j : Nat) :
    entry (Impl.constantZerothMatrix ρ c cz N S) i j
      = entry (Impl.constantZerothMatrix ρ c cz N S) j i := by
  rw [(constantZerothMatrix_linfun (linfun_entry N.length i j) ρ c cz N S rfl hR).2,
    (constantZerothMatrix_linfun (linfun_entry N.length j i) ρ c cz N S rfl hR).2]
  exact constantMatrix_symm (ρ + cz * cz) c N S rfl hR hS i j

theorem constant_zeroth_posdef (ρ c cz : α) (hρ : 0 < ρ) (N : List (List Nat)) (S : List Nat)
    (hR : InRange N.length N S) (hS : Symmetric N.length N S) (x : List α)
    (hx : x.length = N.length) (hx0 : ∃ i, i < N.length ∧ x.getD i 0 ≠ 0) :
    0 < quad (Impl.constantZerothMatrix ρ c cz N S) x := by
  rw [(constantZerothMatrix_linfun (linfun_quad N.length x hx) ρ c cz N S rfl hR).2]
  exact constantMatrix_posdef (ρ + cz * cz) c (by nlinarith [mul_self_nonneg cz]) N S rfl hR hS x hx hx0

/-! ## (b) adaptive (weighted) scheme -/

theorem weighted_dims (ρ : α) (w : List α) (N : List (List Nat)) (S : List Nat)
    (hR : InRange w.length N S) : Dims w.length (Impl.weightedMatrix ρ w N S) :=
  (weightedMatrix_linfun (linfun_entry w.length 0 0) ρ w N S rfl hR).1

/-- (b) for *any* in-range neighbour table: `xᵀHx = Σ_{(i,j) directed} w_j²·(x_i − x_j)² + ρ·|x|²` -/
theorem weighted_quad (ρ : α) (w : List α) (N : List (List Nat)) (S : List Nat)
    (hR : InRange w.length N S) (x : List α) (hx : x.length = w.length) :
    quad (Impl.weightedMatrix ρ w N S) x
      = ((edges w.length N S).map fun e => (w.getD e.2 0 * w.getD e.2 0)
            * ((x.getD e.1 0 - x.getD e.2 0) * (x.getD e.1 0 - x.getD e.2 0))).sum
        + ρ * sumSq x :=
  weightedMatrix_quad ρ w N S rfl hR x hx

/-- (b) the property's statement: with a symmetric neighbour relation the pair `{i,j}` is weighted
    by `w_i² + w_j²`, `w` being the `regularization_weights` handed to the function -/
theorem weighted_quad_pairs (ρ : α) (w : List α) (N : List (List Nat)) (S : List Nat)
    (hR : InRange w.length N S) (hS : Symmetric w.length N S) (x : List α)
    (hx : x.length = w.length) :
    quad (Impl.weightedMatrix ρ w N S) x
      = ((pairs w.length N S).map fun e =>
            (w.getD e.1 0 * w.getD e.1 0 + w.getD e.2 0 * w.getD e.2 0)
              * ((x.getD e.1 0 - x.getD e.2 0) * (x.getD e.1 0 - x.getD e.2 0))).sum
        + ρ * sumSq x :=
  weightedMatrix_quad_pairs ρ w N S rfl hR hS x hx

/-- (b) symmetric, even for an asymmetric neighbour table -/
theorem weighted_symm (ρ : α) (w : List α) (N : List (List Nat)) (S : List Nat)
    (hR : InRange w.length N S) (i j : Nat) :
    entry (Impl.weightedMatrix ρ w N S) i j = entry (Impl.weightedMatrix ρ w N S) j i :=
  weightedMatrix_symm ρ w N S rfl hR i j

/-- (b) strictly positive definite, even for an asymmetric neighbour table -/
theorem weighted_posdef (ρ : α) (hρ : 0 < ρ) (w : List α) (N : List (List Nat)) (S : List Nat)
    (hR : InRange w.length N S) (x : List α) (hx : x.length = w.length)
    (hx0 : ∃ i, i < w.length ∧ x.getD i 0 ≠ 0) :
    0 < quad (Impl.weightedMatrix ρ w N S) x :=
  weightedMatrix_posdef ρ hρ w N S rfl hR x hx hx0

/-- (b) the weights in the matrix are the ones the scheme itself reports:
    `AdaptiveBrightness.regularization_matrix_from` is `weighted_regularization_matrix_from` applied to
    `AdaptiveBrightness.regularization_weights_from` of the same object -/
theorem adaptive_scheme_uses_reported_weights (env : Impl.Env α) (inner outer : α)
    (o : Impl.LinObj α) :
    Impl.schemeMatrix env (.adaptiveBrightness inner outer) o
      = .ok (Impl.weightedMatrix env.ridge
          (Impl.schemeWeights (.adaptiveBrightness inner outer) o) o.neighbors o.sizes) := rfl

/-! ## (c) zeroth-order schemes: diagonal, positive semi-definite -/

theorem zeroth_dims (c : α) (n : Nat) : Dims n (Impl.zerothMatrix c n) :=
  (zerothMatrix_linfun (linfun_entry n 0 0) c).1

/-- (c) `Zeroth`: `H = c²·I` -/
theorem zeroth_entry (c : α) (n i j : Nat) :
    entry (Impl.zerothMatrix c n) i j = if i = j ∧ i < n then c * c else 0 :=
  zerothMatrix_entry n c i j

theorem zeroth_quad (c : α) (n : Nat) (x : List α) (hx : x.length = n) :
    quad (Impl.zerothMatrix c n) x = (c * c) * sumSq x :=
  zerothMatrix_quad n c x hx

/-- (c) positive semi-definite -/
theorem zeroth_psd (c : α) (n : Nat) (x : List α) (hx : x.length = n) :
    0 ≤ quad (Impl.zerothMatrix c n) x := by
  rw [zerothMatrix_quad n c x hx]
  exact mul_nonneg (mul_self_nonneg c) (sumSq_nonneg x)

/-- (c) positive definite when the coefficient is non-zero -/
theorem zeroth_posdef (c : α) (hc : c ≠ 0) (n : Nat) (x : List α) (hx : x.length = n)
    (hx0 : ∃ i, i < n ∧ x.getD i 0 ≠ 0) : 0 < quad (Impl.zerothMatrix c n) x := by
  rw [zerothMatrix_quad n c x hx]
  exact mul_pos (mul_self_pos.mpr hc) (sumSq_pos x (by rw [hx]; exact hx0))

theorem brightness_zeroth_dims (w : List α) : Dims w.length (Impl.brightnessZerothMatrix w) :=
  (brightnessZerothMatrix_linfun (linfun_entry w.length 0 0) w rfl).1

/-- (c) `BrightnessZeroth`: `H = diag(w_i²)` -/
theorem brightness_zeroth_entry (w : List α) (i j : Nat) :
    entry (Impl.brightnessZerothMatrix w) i j
      = if i = j ∧ i < w.length then w.getD i 0 * w.getD i 0 else 0 :=
  brightnessZerothMatrix_entry w.length w rfl i j

theorem brightness_zeroth_quad (w : List α) (x : List α) (hx : x.length = w.length) :
    quad (Impl.brightnessZerothMatrix w) x
      = sumRange w.length fun i => (w.getD i 0 * w.getD i 0) * (x.getD i 0 * x.getD i 0) :=
  brightnessZerothMatrix_quad w.length w rfl x hx

theorem brightness_zeroth_psd (w : List α) (x : List α) (hx : x.length = w.length) :
    0 ≤ quad (Impl.brightnessZerothMatrix w) x := by
  rw [brightnessZerothMatrix_quad w.length w rfl x hx]
  exact sumRange_nonneg _ _ fun i _ => mul_nonneg (mul_self_nonneg _) (mul_self_nonneg _)

/-! ## (d) split-cross schemes

`SplitInRange p mp S`: every pixel index read from a cross-point row is `< p`;
`SplitDistinct p mp S`: the indices read from one row are pairwise distinct (true of Delaunay
simplices plus the appended centre pixel; checked on every generated case).
`crossDot mp S W x k = Σ_{l<S[k]} W[k][l]·x[mp[k][l]]` is the row's vector applied to `x`;
`ρ₂` is the code's `2e-8`, halved with the rest of the diagonal. -/

theorem split_dims (ρ2 : α) (ω : List α) (mp : List (List Nat)) (S : List Nat) (W : List (List α))
    (hR : SplitInRange (mp.length / 4) mp S) :
    Dims (mp.length / 4) (Impl.pixelSplittedMatrix ρ2 ω mp S W) :=
  pixelSplittedMatrix_dims ρ2 ω mp S W rfl hR

/-- (d) `H = (ρ₂/2)·I + Σ_i ω_i² Σ_{j<4} v_{4i+j} v_{4i+j}ᵀ` as a quadratic form -/
theorem split_quad (ρ2 : α) (ω : List α) (mp : List (List Nat)) (S : List Nat) (W : List (List α))
    (hR : SplitInRange (mp.length / 4) mp S) (hD : SplitDistinct (mp.length / 4) mp S)
    (x : List α) (hx : x.length = mp.length / 4) :
    quad (Impl.pixelSplittedMatrix ρ2 ω mp S W) x
      = (ρ2 / (1 + 1)) * sumSq x
        + sumRange (mp.length / 4) fun i => sumRange 4 fun j =>
            (ω.getD i 0 * ω.getD i 0)
              * (crossDot mp S W x (i * 4 + j) * crossDot mp S W x (i * 4 + j)) :=
  pixelSplittedMatrix_quad (by rw [one_add_one_eq_two]; exact two_ne_zero) ρ2 ω mp S W rfl hR hD x hx

/-- (d) symmetric (for any in-range tables) -/
theorem split_symm (ρ2 : α) (ω : List α) (mp : List (List Nat)) (S : List Nat) (W : List (List α))
    (hR : SplitInRange (mp.length / 4) mp S) (a b : Nat) :
    entry (Impl.pixelSplittedMatrix ρ2 ω mp S W) a b
      = entry (Impl.pixelSplittedMatrix ρ2 ω mp S W) b a :=
  pixelSplittedMatrix_symm ρ2 ω mp S W rfl hR a b

/-- (d) strictly positive definite -/
theorem split_posdef (ρ2 : α) (hρ : 0 < ρ2) (ω : List α) (mp : List (List Nat)) (S : List Nat)
    (W : List (List α)) (hR : SplitInRange (mp.length / 4) mp S)
    (hD : SplitDistinct (mp.length / 4) mp S) (x : List α) (hx : x.length = mp.length / 4)
    (hx0 : ∃ i, i < mp.length / 4 ∧ x.getD i 0 ≠ 0) :
    0 < quad (Impl.pixelSplittedMatrix ρ2 ω mp S W) x :=
  pixelSplittedMatrix_posdef ρ2 hρ ω mp S W rfl hR hD x hx hx0

/-- (d) what the two split classes compute: `reg_split_from` on the mapper's cross tables, then the
    matrix above with `ω = coefficient` (constant) or `ω =` the reported adaptive weights -/
theorem split_schemes_unfold (env : Impl.Env α) (c inner outer : α) (o : Impl.LinObj α) :
    Impl.schemeMatrix env (.constantSplit c) o
        = Impl.splitSchemeMatrix env.ridge2 (List.replicate (o.split.mappings.length / 4) c) o.split
    ∧ Impl.schemeMatrix env (.adaptiveBrightnessSplit inner outer) o
        = Impl.splitSchemeMatrix env.ridge2
            (Impl.schemeWeights (.adaptiveBrightnessSplit inner outer) o) o.split :=
  ⟨rfl, rfl⟩

/-- (d) scheme level: whenever `reg_split_from` returns tables (no exception) whose rows are in range
    and distinct, the split-cross class returns the symmetric positive-definite matrix above -/
theorem split_scheme_posdef (ρ2 : α) (hρ : 0 < ρ2) (ω : List α) (t t' : Impl.SplitTables α)
    (hok : Impl.regSplitFrom t = .ok t')
    (hR : SplitInRange (t'.mappings.length / 4) (pyTable (t'.mappings.length / 4) t'.mappings) t'.sizes)
    (hD : SplitDistinct (t'.mappings.length / 4) (pyTable (t'.mappings.length / 4) t'.mappings) t'.sizes) :
    ∃ H, Impl.splitSchemeMatrix ρ2 ω t = .ok H
      ∧ Dims (t'.mappings.length / 4) H
      ∧ (∀ a b, entry H a b = entry H b a)
      ∧ ∀ x : List α, x.length = t'.mappings.length / 4 →
          (∃ i, i < t'.mappings.length / 4 ∧ x.getD i 0 ≠ 0) → 0 < quad H x := by
  have hlen : (pyTable (t'.mappings.length / 4) t'.mappings).length = t'.mappings.length := by
    simp [pyTable]
  refine ⟨Impl.pixelSplittedMatrix ρ2 ω (pyTable (t'.mappings.length / 4) t'.mappings) t'.sizes
    t'.weights, by simp only [Impl.splitSchemeMatrix, hok], ?_, ?_, ?_⟩
  · exact pixelSplittedMatrix_dims ρ2 ω _ _ _ (by rw [hlen]) hR
  · intro a b
    exact pixelSplittedMatrix_symm ρ2 ω _ _ _ (by rw [hlen]) hR a b
  · intro x hx hx0
    exact pixelSplittedMatrix_posdef ρ2 hρ ω _ _ _ (by rw [hlen]) hR hD x hx hx0

/-- (d) `reg_split_from` on well-formed tables (`R` rows of array width `width`, every row non-empty
    and not full) raises nothing and returns, row by row, the negated weights with `+1` on the row's own
    pixel `i/4` — in place when the pixel is among the row's indices (`resM/resS/resW`, first branch),
    appended at position `size` otherwise -/
theorem reg_split_from_rows (t : Impl.SplitTables α) (R width : Nat) (hwf : SplitWF t R width) :
    ∃ t', Impl.regSplitFrom t = .ok t' ∧ t'.mappings.length = R ∧ t'.sizes.length = R
      ∧ t'.weights.length = R
      ∧ ∀ i, i < R → t'.mappings.getD i [] = resM t i ∧ t'.sizes.getD i 0 = resS t i
          ∧ t'.weights.getD i [] = resW t i :=
  regSplitFrom_ok t R width hwf

/-- (d) the full clause, from the mapper's own cross-point tables: if they are well formed
    (`4p` rows), with non-negative, in-range, pairwise distinct pixel indices per row (Delaunay
    simplices), then `ConstantSplit` / `AdaptiveBrightnessSplit` (= `reg_split_from` followed by
    `pixel_splitted_regularization_matrix_from`, `ω` the scheme's weights) return a `p×p` symmetric
    strictly positive-definite matrix with
    `xᵀHx = (ρ₂/2)|x|² + Σ_i ω_i² Σ_{j<4} (x_i − Σ_l w_{kl} x_{m_{kl}})²`, `k = 4i+j`
    — the squared differences between each pixel's value and the value interpolated at its four
    cross points -/
theorem split_scheme_spec (p : Nat) (ρ2 : α) (hρ : 0 < ρ2) (ω : List α) (t : Impl.SplitTables α)
    (width : Nat) (hwf : SplitWF t (4 * p) width)
    (hnn : ∀ k, k < 4 * p → ∀ l, l < t.sizes.getD k 0 → 0 ≤ (t.mappings.getD k []).getD l 0)
    (hR : SplitInRange p (pyTable p t.mappings) t.sizes)
    (hD : SplitDistinct p (pyTable p t.mappings) t.sizes) :
    ∃ H, Impl.splitSchemeMatrix ρ2 ω t = .ok H
      ∧ Dims p H
      ∧ (∀ a b, entry H a b = entry H b a)
      ∧ (∀ x : List α, x.length = p →
          quad H x = (ρ2 / (1 + 1)) * sumSq x
            + sumRange p fun i => sumRange 4 fun j =>
                (ω.getD i 0 * ω.getD i 0)
                  * ((x.getD i 0 - crossDot (pyTable p t.mappings) t.sizes t.weights x (i * 4 + j))
                    * (x.getD i 0 - crossDot (pyTable p t.mappings) t.sizes t.weights x (i * 4 + j))))
      ∧ (∀ x : List α, x.length = p → (∃ i, i < p ∧ x.getD i 0 ≠ 0) → 0 < quad H x) :=
  splitSchemeMatrix_spec p ρ2 hρ ω t width hwf hnn hR hD

/-! ## (e) kernel schemes — partial

Proved: the covariance matrix built by the double loop has entries `k(d_ij) + ρ·[i=j]`, is symmetric,
has unit-plus-ridge diagonal; and **if** it is positive definite then `coefficient · inv(C)` is
symmetric positive definite, for any `inv` meeting the contract `C · inv(C) = I`.
NOT proved (full clause, left to the exact-rational LDLᵀ test of the harness): that the Gaussian /
exponential kernel matrix of distinct points is itself positive definite.

`IsSymm n M`, `IsPosDef n M`, `IsRightInverse n C B` are the list-matrix statements of symmetry,
`xᵀMx > 0 ∀ x ≠ 0`, and `C·B = I`. -/

/-- (e) covariance entries (both kernels; `k` is the kernel as a function of `d_ij`) -/
theorem kernel_cov_entry (k sqrt : α → α) (ρ : α) (pts : List (α × α)) (a b : Nat)
    (ha : a < pts.length) (hb : b < pts.length) :
    entry (Impl.covMatrix k sqrt ρ pts) a b
      = (if a = b then ρ else 0) + k (sqrt (dist2 pts a b)) :=
  covMatrix_entry k sqrt ρ pts rfl a b ha hb

/-- (e) covariance symmetric -/
theorem kernel_cov_symm (k sqrt : α → α) (ρ : α) (pts : List (α × α)) :
    IsSymm pts.length (Impl.covMatrix k sqrt ρ pts) :=
  fun a b ha hb => covMatrix_symm k sqrt ρ pts rfl a b ha hb

/-- (e) unit-plus-ridge diagonal for the Gaussian and the exponential kernel -/
theorem kernel_cov_diag (exp sqrt : α → α) (hs : sqrt 0 = 0) (he : exp 0 = 1) (ρ scale : α)
    (pts : List (α × α)) (a : Nat) (ha : a < pts.length) :
    entry (Impl.covMatrix (Impl.gaussKernel exp scale) sqrt ρ pts) a a = ρ + 1
    ∧ entry (Impl.covMatrix (Impl.expKernel exp scale) sqrt ρ pts) a a = ρ + 1 := by
  constructor
  · rw [covMatrix_entry _ sqrt ρ pts rfl a a ha ha, dist2_self, hs]
    simp [Impl.gaussKernel, he]
  · rw [covMatrix_entry _ sqrt ρ pts rfl a a ha ha, dist2_self, hs]
    simp [Impl.expKernel, he]

/-- (e, partial) if the covariance matrix is positive definite and `inv` inverts it, the matrix both
    kernel classes return (`coefficient * np.linalg.inv(covariance_matrix)`) is symmetric positive
    definite -/
theorem kernel_reg_posdef_partial (env : Impl.Env α) (c scale : α) (hc : 0 < c) (o : Impl.LinObj α)
    (k : α → α) (s : Impl.Scheme α)
    (hs : (s = .gaussianKernel c scale ∧ k = Impl.gaussKernel env.exp scale)
        ∨ (s = .exponentialKernel c scale ∧ k = Impl.expKernel env.exp scale))
    (hpd : IsPosDef o.points.length (Impl.covMatrix k env.sqrt env.ridge o.points))
    (hinv : IsRightInverse o.points.length (Impl.covMatrix k env.sqrt env.ridge o.points)
              (env.inv (Impl.covMatrix k env.sqrt env.ridge o.points))) :
    ∃ H, Impl.schemeMatrix env s o = .ok H ∧ IsSymm o.points.length H ∧ IsPosDef o.points.length H := by
  obtain ⟨hB1, hB2⟩ := inv_symm_posdef _ _ (kernel_cov_symm k env.sqrt env.ridge o.points) hpd hinv
  refine ⟨smul c (env.inv (Impl.covMatrix k env.sqrt env.ridge o.points)), ?_, ?_, ?_⟩
  · rcases hs with ⟨rfl, rfl⟩ | ⟨rfl, rfl⟩ <;> rfl
  · intro i j hi hj
    rw [entry_smul, entry_smul, hB1 i j hi hj]
  · intro x hx hx0
    rw [quad_smul]
    exact mul_pos hc (hB2 x hx hx0)

/-- (e, Gaussian — full) over ℝ with the real `exp` and `sqrt`, the covariance matrix that
    `gauss_cov_matrix_from` builds is positive definite for every list of points (repeated points
    allowed), every scale (even 0, where the code divides by zero) and every ridge > 0:
    `exp(−|p−q|²/2σ²) = u(p)u(q)·exp(⟨p,q⟩/σ²)`, the exponential is a series of powers of the
    dot-product kernel, each a sum of squares by the binomial theorem -/
theorem gaussian_kernel_cov_posdef (scale ridge : ℝ) (hρ : 0 < ridge) (pts : List (ℝ × ℝ)) :
    IsPosDef pts.length
      (Impl.covMatrix (Impl.gaussKernel Real.exp scale) Real.sqrt ridge pts) :=
  gaussCov_posdef scale ridge hρ pts

/-- (e, Gaussian — full) `GaussianKernel.regularization_matrix_from` returns a symmetric strictly
    positive-definite matrix: only the contract of `np.linalg.inv` remains as a hypothesis -/
theorem gaussian_kernel_reg_posdef (env : Impl.Env ℝ) (hexp : env.exp = Real.exp)
    (hsqrt : env.sqrt = Real.sqrt) (hρ : 0 < env.ridge) (c scale : ℝ) (hc : 0 < c)
    (o : Impl.LinObj ℝ)
    (hinv : IsRightInverse o.points.length
              (Impl.covMatrix (Impl.gaussKernel Real.exp scale) Real.sqrt env.ridge o.points)
              (env.inv (Impl.covMatrix (Impl.gaussKernel Real.exp scale) Real.sqrt env.ridge o.points))) :
    ∃ H, Impl.schemeMatrix env (.gaussianKernel c scale) o = .ok H
      ∧ IsSymm o.points.length H ∧ IsPosDef o.points.length H := by
  have h := kernel_reg_posdef_partial env c scale hc o (Impl.gaussKernel env.exp scale)
    (.gaussianKernel c scale) (Or.inl ⟨rfl, rfl⟩)
  rw [hexp, hsqrt] at h
  exact h (gaussCov_posdef scale env.ridge hρ o.points) hinv

/-! ## (f) assembly over the linear objects -/

/-- (f) an object without a regularization scheme contributes the all-zero `params × params` block -/
theorem linear_obj_without_scheme_zero_block (params i j : Nat) :
    Dims params (Impl.linearObjMatrix (α := α) params none)
    ∧ entry (Impl.linearObjMatrix (α := α) params none) i j = 0 :=
  ⟨dims_zeros params, entry_zeros params params i j⟩

/-- (f) size of the assembled matrix = total parameter count -/
theorem block_diag_dims (objs : List (Nat × Option (List (List α))))
    (h : ∀ o ∈ objs, ∀ H, o.2 = some H → Dims o.1 H) :
    Dims ((objs.map (·.1)).sum) (Impl.inversionMatrix objs) := by
  have hall : AllDims (objs.map fun o => (o.1, Impl.linearObjMatrix o.1 o.2)) := by
    intro o ho
    obtain ⟨o', ho', rfl⟩ := List.mem_map.mp ho
    cases h2 : o'.2 with
    | none => simp only [Impl.linearObjMatrix]; exact dims_zeros _
    | some H => simp only [Impl.linearObjMatrix]; exact h o' ho' H h2
  have := blockDiag_dims _ hall
  simpa [Impl.inversionMatrix, totalParams, List.map_map, Function.comp_def] using this

/-- (f) blocks are placed in the order of the linear objects: the `(a,b)` entry of object `k`'s own
    matrix sits at `(offset k + a, offset k + b)`, `offset k` = parameter count of the objects before
    it; entries coupling different objects are zero -/
theorem block_diag_entry (objs : List (Nat × List (List α))) (h : AllDims objs)
    (k k' : Nat) (hk : k < objs.length) (hk' : k' < objs.length) (a b : Nat)
    (ha : a < (objs.getD k (0, [])).1) (hb : b < (objs.getD k' (0, [])).1) :
    entry (blockDiag objs) (offset objs k + a) (offset objs k' + b)
      = if k = k' then entry (objs.getD k (0, [])).2 a b else 0 :=
  blockDiag_entry objs h k k' hk hk' a b ha hb

/-- (f) hence `xᵀHx` of the assembled matrix is the sum of the objects' own quadratic forms (so it is
    PSD when every block is, and an unregularized object contributes nothing) -/
theorem block_diag_quad (n : Nat) (B : List (List α)) (hB : Dims n B)
    (rest : List (Nat × List (List α))) (x y : List α) (hx : x.length = n) :
    quad (blockDiag ((n, B) :: rest)) (x ++ y) = quad B x + quad (blockDiag rest) y :=
  blockDiag_cons_quad n B hB rest x y hx

/-- (f) the assembled matrix is symmetric when every object's matrix is -/
theorem block_diag_symm (objs : List (Nat × List (List α))) (h : AllDims objs)
    (hs : ∀ o ∈ objs, ∀ a b, entry o.2 a b = entry o.2 b a) (i j : Nat) :
    entry (blockDiag objs) i j = entry (blockDiag objs) j i :=
  blockDiag_symm objs h hs i j

/-- (f) the assembled matrix is positive semi-definite when every object's matrix is (the zero block
    of an unregularized object is), for any number of objects in any order -/
theorem block_diag_psd (objs : List (Nat × List (List α))) (h : AllDims objs)
    (hp : ∀ o ∈ objs, ∀ x : List α, x.length = o.1 → 0 ≤ quad o.2 x)
    (x : List α) (hx : x.length = totalParams objs) : 0 ≤ quad (blockDiag objs) x :=
  blockDiag_psd objs h hp x hx

/-! ## (e′) exponential kernel — full over ℝ (proof in Proofs/RegularizationExpPD*.lean) -/

/-- (e, exponential — full) over ℝ with the real `exp` and `sqrt`, the covariance matrix that
    `exp_cov_matrix_from` builds (`exp(−‖p_i − p_j‖/σ) + ρ[i=j]`) is positive definite for every list of
    points (repeated points allowed), every scale `σ ≥ 0` and every ridge `ρ > 0`: the Euclidean distance of
    ℝ² is conditionally negative definite (angular average of `|⟨u, p − q⟩|`), Schoenberg's step (Schur
    products + the power series of `exp`) makes `exp(−t‖p − q‖)` positive semi-definite, the ridge makes it
    strict.  (For `σ < 0` the kernel is `exp(+d/|σ|)`, which is not PSD: the hypothesis is needed.) -/
theorem exponential_kernel_cov_posdef (scale ridge : ℝ) (hσ : 0 ≤ scale) (hρ : 0 < ridge)
    (pts : List (ℝ × ℝ)) :
    IsPosDef pts.length
      (Impl.covMatrix (Impl.expKernel Real.exp scale) Real.sqrt ridge pts) :=
  Model.RegExpPD.exponential_kernel_cov_posdef scale ridge hσ hρ pts

/-- (e, exponential — full) `ExponentialKernel.regularization_matrix_from` returns a symmetric strictly
    positive-definite matrix: only the contract of `np.linalg.inv` remains as a hypothesis -/
theorem exponential_kernel_reg_posdef (env : Impl.Env ℝ) (hexp : env.exp = Real.exp)
    (hsqrt : env.sqrt = Real.sqrt) (hρ : 0 < env.ridge) (c scale : ℝ) (hc : 0 < c) (hσ : 0 ≤ scale)
    (o : Impl.LinObj ℝ)
    (hinv : IsRightInverse o.points.length
              (Impl.covMatrix (Impl.expKernel Real.exp scale) Real.sqrt env.ridge o.points)
              (env.inv (Impl.covMatrix (Impl.expKernel Real.exp scale) Real.sqrt env.ridge o.points))) :
    ∃ H, Impl.schemeMatrix env (.exponentialKernel c scale) o = .ok H
      ∧ IsSymm o.points.length H ∧ IsPosDef o.points.length H := by
  have h := kernel_reg_posdef_partial env c scale hc o (Impl.expKernel env.exp scale)
    (.exponentialKernel c scale) (Or.inr ⟨rfl, rfl⟩)
  rw [hexp, hsqrt] at h
  exact h (Model.RegExpPD.exponential_kernel_cov_posdef scale env.ridge hσ hρ o.points) hinv

/-! ## (g) rectangular meshes — clauses (a), (b) with no hypothesis on the neighbour table

`Impl.rectMeshNeighbors H W` / `Impl.rectMeshSizes H W` are `Mesh2DRectangular.neighbors` (and `.sizes`):
the loop transliteration `Impl.rectNeighbors` of `mesh_util.rectangular_neighbors_from` (corners, four
edges, centre — C06.f), read by the regularization loops the numpy way.  C06's theorem
`rectNeighbors_eq_spec` (the table is exactly the 4-connectivity) is composed with the C07 clauses, so for
**every** mesh shape `H, W ≥ 2` (the code requires ≥ 3), every coefficient and every weight vector nothing
is left as a hypothesis. -/

/-- (g) the table of a rectangular mesh has one row per pixel, reads only valid pixel indices and is
    symmetric with multiplicity — the hypotheses `InRange` / `Symmetric` of clauses (a), (b) -/
theorem rect_neighbors_wellformed (H W : Nat) (hH : 2 ≤ H) (hW : 2 ≤ W) :
    (Impl.rectMeshNeighbors H W).length = H * W
    ∧ (Impl.rectMeshSizes H W).length = H * W
    ∧ InRange (H * W) (Impl.rectMeshNeighbors H W) (Impl.rectMeshSizes H W)
    ∧ Symmetric (H * W) (Impl.rectMeshNeighbors H W) (Impl.rectMeshSizes H W) :=
  ⟨(rectMesh_length H W hH hW).1, (rectMesh_length H W hH hW).2, rectMesh_inRange H W hH hW,
    rectMesh_symmetric H W hH hW⟩

/-- (g) the "neighbouring source-pixel pairs" of a rectangular mesh are exactly the horizontally and
    vertically adjacent pixel pairs, each listed once: `(y, x)` is paired with `(y, x+1)` and `(y+1, x)` -/
theorem rect_pairs_are_adjacent_pixels (H W : Nat) (hH : 2 ≤ H) (hW : 2 ≤ W) :
    (pairs (H * W) (Impl.rectMeshNeighbors H W) (Impl.rectMeshSizes H W)).Nodup
    ∧ ∀ y x y' x', x < W → x' < W → y < H → y' < H →
        ((y * W + x, y' * W + x')
            ∈ pairs (H * W) (Impl.rectMeshNeighbors H W) (Impl.rectMeshSizes H W)
          ↔ (y' = y ∧ x + 1 = x') ∨ (x' = x ∧ y + 1 = y')) :=
  ⟨(rectMesh_pairs H W hH hW).1,
    fun y x y' x' hx hx' hy hy' => rectMesh_pairs_coords H W hH hW y x y' x' hx hx' hy hy'⟩

/-- (g, a) `Constant` on a rectangular mesh, unconditional: `H·W × H·W`, symmetric,
    `xᵀHx = c²·Σ_{adjacent pixel pairs}(x_i − x_j)² + ρ|x|²`, strictly positive definite -/
theorem rect_constant_spec (H W : Nat) (hH : 2 ≤ H) (hW : 2 ≤ W) (ρ c : α) (hρ : 0 < ρ) :
    Dims (H * W) (Impl.constantMatrix ρ c (Impl.rectMeshNeighbors H W) (Impl.rectMeshSizes H W))
    ∧ (∀ i j, entry (Impl.constantMatrix ρ c (Impl.rectMeshNeighbors H W) (Impl.rectMeshSizes H W)) i j
          = entry (Impl.constantMatrix ρ c (Impl.rectMeshNeighbors H W) (Impl.rectMeshSizes H W)) j i)
    ∧ (∀ x : List α, x.length = H * W →
        quad (Impl.constantMatrix ρ c (Impl.rectMeshNeighbors H W) (Impl.rectMeshSizes H W)) x
          = (c * c) * ((pairs (H * W) (Impl.rectMeshNeighbors H W) (Impl.rectMeshSizes H W)).map fun e =>
                (x.getD e.1 0 - x.getD e.2 0) * (x.getD e.1 0 - x.getD e.2 0)).sum
            + ρ * sumSq x)
    ∧ (∀ x : List α, x.length = H * W → (∃ i, i < H * W ∧ x.getD i 0 ≠ 0) →
        0 < quad (Impl.constantMatrix ρ c (Impl.rectMeshNeighbors H W) (Impl.rectMeshSizes H W)) x) := by
  obtain ⟨hn, _, hR, hS⟩ := rect_neighbors_wellformed H W hH hW
  exact ⟨(constantMatrix_linfun (linfun_entry (H * W) 0 0) ρ c _ _ hn hR).1,
    fun i j => constantMatrix_symm ρ c _ _ hn hR hS i j,
    fun x hx => constantMatrix_quad_pairs ρ c _ _ hn hR hS x hx,
    fun x hx hx0 => constantMatrix_posdef ρ c hρ _ _ hn hR hS x hx hx0⟩

/-- (g, a) `ConstantZeroth` on a rectangular mesh, unconditional: the same with `+ c₀²|x|²` -/
theorem rect_constant_zeroth_spec (H W : Nat) (hH : 2 ≤ H) (hW : 2 ≤ W) (ρ c cz : α) (hρ : 0 < ρ) :
    Dims (H * W)
      (Impl.constantZerothMatrix ρ c cz (Impl.rectMeshNeighbors H W) (Impl.rectMeshSizes H W))
    ∧ (∀ i j,
        entry (Impl.constantZerothMatrix ρ c cz (Impl.rectMeshNeighbors H W) (Impl.rectMeshSizes H W)) i j
          = entry (Impl.constantZerothMatrix ρ c cz (Impl.rectMeshNeighbors H W) (Impl.rectMeshSizes H W)) j i)
    ∧ (∀ x : List α, x.length = H * W →
        quad (Impl.constantZerothMatrix ρ c cz (Impl.rectMeshNeighbors H W) (Impl.rectMeshSizes H W)) x
          = (c * c) * ((pairs (H * W) (Impl.rectMeshNeighbors H W) (Impl.rectMeshSizes H W)).map fun e =>
                (x.getD e.1 0 - x.getD e.2 0) * (x.getD e.1 0 - x.getD e.2 0)).sum
            + ρ * sumSq x + (cz * cz) * sumSq x)
    ∧ (∀ x : List α, x.length = H * W → (∃ i, i < H * W ∧ x.getD i 0 ≠ 0) →
        0 < quad (Impl.constantZerothMatrix ρ c cz (Impl.rectMeshNeighbors H W) (Impl.rectMeshSizes H W)) x) := by
  obtain ⟨hn, _, hR, hS⟩ := rect_neighbors_wellformed H W hH hW
  refine ⟨(constantZerothMatrix_linfun (linfun_entry (H * W) 0 0) ρ c cz _ _ hn hR).1, ?_, ?_, ?_⟩
  · intro i j
    rw [(constantZerothMatrix_linfun (linfun_entry (H * W) i j) ρ c cz _ _ hn hR).2,
      (constantZerothMatrix_linfun (linfun_entry (H * W) j i) ρ c cz _ _ hn hR).2]
    exact constantMatrix_symm (ρ + cz * cz) c _ _ hn hR hS i j
  · intro x hx
    rw [(constantZerothMatrix_linfun (linfun_quad (H * W) x hx) ρ c cz _ _ hn hR).2,
      constantMatrix_quad_pairs (ρ + cz * cz) c _ _ hn hR hS x hx]
    ring
  · intro x hx hx0
    rw [(constantZerothMatrix_linfun (linfun_quad (H * W) x hx) ρ c cz _ _ hn hR).2]
    exact constantMatrix_posdef (ρ + cz * cz) c (by nlinarith [mul_self_nonneg cz]) _ _ hn hR hS x hx hx0

/-- (g, b) the weighted (adaptive) matrix on a rectangular mesh, unconditional, for every weight vector
    `w` with one entry per pixel: symmetric, the adjacent pair `{i, j}` weighted by `w_i² + w_j²`,
    strictly positive definite -/
theorem rect_weighted_spec (H W : Nat) (hH : 2 ≤ H) (hW : 2 ≤ W) (ρ : α) (hρ : 0 < ρ) (w : List α)
    (hw : w.length = H * W) :
    Dims (H * W) (Impl.weightedMatrix ρ w (Impl.rectMeshNeighbors H W) (Impl.rectMeshSizes H W))
    ∧ (∀ i j, entry (Impl.weightedMatrix ρ w (Impl.rectMeshNeighbors H W) (Impl.rectMeshSizes H W)) i j
          = entry (Impl.weightedMatrix ρ w (Impl.rectMeshNeighbors H W) (Impl.rectMeshSizes H W)) j i)
    ∧ (∀ x : List α, x.length = H * W →
        quad (Impl.weightedMatrix ρ w (Impl.rectMeshNeighbors H W) (Impl.rectMeshSizes H W)) x
          = ((pairs (H * W) (Impl.rectMeshNeighbors H W) (Impl.rectMeshSizes H W)).map fun e =>
                (w.getD e.1 0 * w.getD e.1 0 + w.getD e.2 0 * w.getD e.2 0)
                  * ((x.getD e.1 0 - x.getD e.2 0) * (x.getD e.1 0 - x.getD e.2 0))).sum
            + ρ * sumSq x)
    ∧ (∀ x : List α, x.length = H * W → (∃ i, i < H * W ∧ x.getD i 0 ≠ 0) →
        0 < quad (Impl.weightedMatrix ρ w (Impl.rectMeshNeighbors H W) (Impl.rectMeshSizes H W)) x) := by
  obtain ⟨_, _, hR, hS⟩ := rect_neighbors_wellformed H W hH hW
  exact ⟨(weightedMatrix_linfun (linfun_entry (H * W) 0 0) ρ w _ _ hw hR).1,
    fun i j => weightedMatrix_symm ρ w _ _ hw hR i j,
    fun x hx => weightedMatrix_quad_pairs ρ w _ _ hw hR hS x hx,
    fun x hx hx0 => weightedMatrix_posdef ρ hρ w _ _ hw hR x hx hx0⟩

/-- (g, b) class level: `AdaptiveBrightness.regularization_matrix_from` on a linear object that sits on a
    rectangular mesh (its `neighbors` are the mesh's table, one pixel signal per mesh pixel) returns the
    matrix of `rect_weighted_spec` with `w` = the weights `AdaptiveBrightness.regularization_weights_from`
    reports for that object -/
theorem rect_adaptive_brightness_spec (H W : Nat) (hH : 2 ≤ H) (hW : 2 ≤ W) (env : Impl.Env α)
    (hρ : 0 < env.ridge) (inner outer : α) (o : Impl.LinObj α)
    (hN : o.neighbors = Impl.rectMeshNeighbors H W) (hS : o.sizes = Impl.rectMeshSizes H W)
    (hsig : o.signals.length = H * W) :
    ∃ M, Impl.schemeMatrix env (.adaptiveBrightness inner outer) o = .ok M
      ∧ Dims (H * W) M ∧ (∀ i j, entry M i j = entry M j i)
      ∧ (∀ x : List α, x.length = H * W →
          quad M x
            = ((pairs (H * W) (Impl.rectMeshNeighbors H W) (Impl.rectMeshSizes H W)).map fun e =>
                  ((Impl.schemeWeights (.adaptiveBrightness inner outer) o).getD e.1 0
                      * (Impl.schemeWeights (.adaptiveBrightness inner outer) o).getD e.1 0
                    + (Impl.schemeWeights (.adaptiveBrightness inner outer) o).getD e.2 0
                      * (Impl.schemeWeights (.adaptiveBrightness inner outer) o).getD e.2 0)
                    * ((x.getD e.1 0 - x.getD e.2 0) * (x.getD e.1 0 - x.getD e.2 0))).sum
              + env.ridge * sumSq x)
      ∧ (∀ x : List α, x.length = H * W → (∃ i, i < H * W ∧ x.getD i 0 ≠ 0) → 0 < quad M x) := by
  have hw : (Impl.schemeWeights (.adaptiveBrightness inner outer) o).length = H * W := by
    simp [Impl.schemeWeights, Impl.adaptiveWeights, hsig]
  obtain ⟨h1, h2, h3, h4⟩ := rect_weighted_spec H W hH hW env.ridge hρ _ hw
  refine ⟨_, rfl, ?_, ?_, ?_, ?_⟩
  · rw [hN, hS]; exact h1
  · rw [hN, hS]; exact h2
  · rw [hN, hS]; exact h3
  · rw [hN, hS]; exact h4

/-! ## (g′) Delaunay meshes — clauses (a), (b) from Qhull's contract (C06.f)

`Impl.delaunayMeshNeighbors indptr indices n` / `Impl.delaunayMeshSizes …` are `Mesh2DDelaunay.neighbors`
(C06's `Impl.delaunayNeighbors`, built from scipy's CSR pair `vertex_neighbor_vertices`).  Qhull is not
modelled; its contract, as C06 states it and the harness checks on every case: the slices are complete,
slice `k` lists exactly the vertices sharing a simplex with `k`, none twice. -/

/-- (g′) under Qhull's contract the neighbour table of a Delaunay mesh has one row per vertex, reads only
    valid vertex indices and is symmetric with multiplicity — the hypotheses of clauses (a), (b) -/
theorem delaunay_neighbors_wellformed (indptr indices : List Nat) (n : Nat) (simplices : List (List Nat))
    (hfull : ∀ k < n, (csrSlice indptr indices k).length = indptr.getD (k + 1) 0 - indptr.getD k 0)
    (hcontract : ∀ k < n, ∀ j, j ∈ csrSlice indptr indices k ↔
      (j < n ∧ j ≠ k ∧ ∃ s ∈ simplices, k ∈ s ∧ j ∈ s))
    (hnodup : ∀ k < n, (csrSlice indptr indices k).Nodup) :
    (Impl.delaunayMeshNeighbors indptr indices n).length = n
    ∧ InRange n (Impl.delaunayMeshNeighbors indptr indices n) (Impl.delaunayMeshSizes indptr indices n)
    ∧ Symmetric n (Impl.delaunayMeshNeighbors indptr indices n) (Impl.delaunayMeshSizes indptr indices n) :=
  delaunayMesh_wellformed indptr indices n hfull simplices hcontract hnodup

/-- (g′, a) hence `Constant` on a Delaunay mesh is `n × n`, symmetric, has the pair-sum quadratic form and
    is strictly positive definite, given only Qhull's contract -/
theorem delaunay_constant_spec (indptr indices : List Nat) (n : Nat) (simplices : List (List Nat))
    (hfull : ∀ k < n, (csrSlice indptr indices k).length = indptr.getD (k + 1) 0 - indptr.getD k 0)
    (hcontract : ∀ k < n, ∀ j, j ∈ csrSlice indptr indices k ↔
      (j < n ∧ j ≠ k ∧ ∃ s ∈ simplices, k ∈ s ∧ j ∈ s))
    (hnodup : ∀ k < n, (csrSlice indptr indices k).Nodup) (ρ c : α) (hρ : 0 < ρ) :
    Dims n (Impl.constantMatrix ρ c (Impl.delaunayMeshNeighbors indptr indices n)
      (Impl.delaunayMeshSizes indptr indices n))
    ∧ (∀ i j, entry (Impl.constantMatrix ρ c (Impl.delaunayMeshNeighbors indptr indices n)
          (Impl.delaunayMeshSizes indptr indices n)) i j
        = entry (Impl.constantMatrix ρ c (Impl.delaunayMeshNeighbors indptr indices n)
          (Impl.delaunayMeshSizes indptr indices n)) j i)
    ∧ (∀ x : List α, x.length = n →
        quad (Impl.constantMatrix ρ c (Impl.delaunayMeshNeighbors indptr indices n)
            (Impl.delaunayMeshSizes indptr indices n)) x
          = (c * c) * ((pairs n (Impl.delaunayMeshNeighbors indptr indices n)
                (Impl.delaunayMeshSizes indptr indices n)).map fun e =>
                (x.getD e.1 0 - x.getD e.2 0) * (x.getD e.1 0 - x.getD e.2 0)).sum
            + ρ * sumSq x)
    ∧ (∀ x : List α, x.length = n → (∃ i, i < n ∧ x.getD i 0 ≠ 0) →
        0 < quad (Impl.constantMatrix ρ c (Impl.delaunayMeshNeighbors indptr indices n)
            (Impl.delaunayMeshSizes indptr indices n)) x) := by
  obtain ⟨hn, hR, hS⟩ := delaunay_neighbors_wellformed indptr indices n simplices hfull hcontract hnodup
  exact ⟨(constantMatrix_linfun (linfun_entry n 0 0) ρ c _ _ hn hR).1,
    fun i j => constantMatrix_symm ρ c _ _ hn hR hS i j,
    fun x hx => constantMatrix_quad_pairs ρ c _ _ hn hR hS x hx,
    fun x hx hx0 => constantMatrix_posdef ρ c hρ _ _ hn hR hS x hx hx0⟩

/-! ## (h) the reduced matrix and the list of unregularized parameters

`Impl.noRegIndexList` is `AbstractInversion.no_regularization_index_list` (objects given as
`(params, has a scheme)`), `Impl.reducedMatrix` is `AbstractInversion.regularization_matrix_reduced`
(objects given as `(params, matrix of the scheme if any)`; `np.delete` = `Spec.deleteIdx`).
`noRegSpec off objs` = object by object, the whole range `[off, off + params)` of every object without a
scheme; `regBlocks objs` = the objects that have a scheme, with their matrices, in object order. -/

/-- (h) `no_regularization_index_list` lists exactly the parameter indices of the objects without a
    regularization scheme — object `k` contributes its whole range `[offset_k, offset_k + params_k)` iff it
    has no scheme — in strictly increasing order, for any mix and order of objects -/
theorem no_regularization_index_list_spec (objs : List (Nat × Bool)) :
    Impl.noRegIndexList objs = noRegSpec 0 objs
    ∧ (Impl.noRegIndexList objs).Pairwise (· < ·) := by
  rw [noRegIndexList_eq]
  exact ⟨rfl, noRegSpec_sorted 0 objs⟩

/-- (h) `regularization_matrix_reduced` is the assembled block-diagonal matrix with exactly the rows and
    the columns of `no_regularization_index_list` removed — in both branches of the code (when every
    object has a scheme the list is empty and the shortcut returns the same matrix) -/
theorem reduced_is_deletion (objs : List (Nat × Option (List (List α)))) :
    Impl.reducedMatrix objs
      = (deleteIdx (Impl.inversionMatrix objs) (Impl.noRegIndexList (regFlags objs))).map
          fun r => deleteIdx r (Impl.noRegIndexList (regFlags objs)) :=
  reducedMatrix_eq_delete objs

/-- (h) hence the reduced matrix is the block-diagonal matrix of the regularized objects' own matrices, in
    object order: the all-zero blocks of the objects without a scheme are gone and nothing else changed -/
theorem reduced_eq_block_diag (objs : List (Nat × Option (List (List α))))
    (hd : ∀ o ∈ objs, ∀ H, o.2 = some H → Dims o.1 H) :
    Impl.reducedMatrix objs = blockDiag (regBlocks objs) :=
  reducedMatrix_eq_blockDiag objs hd

/-- (f′) a block-diagonal matrix whose blocks are all strictly positive definite is strictly positive
    definite, for any number of blocks -/
theorem block_diag_posdef (objs : List (Nat × List (List α))) (h : AllDims objs)
    (hp : ∀ o ∈ objs, ∀ x : List α, x.length = o.1 → (∃ i, i < o.1 ∧ x.getD i 0 ≠ 0) → 0 < quad o.2 x)
    (x : List α) (hx : x.length = totalParams objs)
    (hx0 : ∃ i, i < totalParams objs ∧ x.getD i 0 ≠ 0) : 0 < quad (blockDiag objs) x :=
  blockDiag_posdef objs h hp x hx hx0

/-- (h) the reduced matrix has the size of the regularized parameters, is symmetric when every scheme's
    matrix is, and is strictly positive definite when every scheme's matrix is — so its Cholesky
    factorisation and log-determinant (the regularization term of the evidence) exist although the full
    matrix is only semi-definite as soon as one object has no scheme -/
theorem reduced_symm_posdef (objs : List (Nat × Option (List (List α))))
    (hd : ∀ o ∈ objs, ∀ H, o.2 = some H → Dims o.1 H)
    (hs : ∀ o ∈ objs, ∀ H, o.2 = some H → ∀ a b, entry H a b = entry H b a)
    (hp : ∀ o ∈ objs, ∀ H, o.2 = some H → ∀ x : List α, x.length = o.1 →
      (∃ i, i < o.1 ∧ x.getD i 0 ≠ 0) → 0 < quad H x) :
    Dims (totalParams (regBlocks objs)) (Impl.reducedMatrix objs)
    ∧ (∀ i j, entry (Impl.reducedMatrix objs) i j = entry (Impl.reducedMatrix objs) j i)
    ∧ ∀ x : List α, x.length = totalParams (regBlocks objs) →
        (∃ i, i < totalParams (regBlocks objs) ∧ x.getD i 0 ≠ 0) →
        0 < quad (Impl.reducedMatrix objs) x := by
  have hmem : ∀ b ∈ regBlocks objs, ∃ o ∈ objs, o.2 = some b.2 ∧ o.1 = b.1 := by
    intro b hb
    simp only [regBlocks, List.mem_filterMap] at hb
    obtain ⟨o, ho, hb⟩ := hb
    cases h2 : o.2 with
    | none => simp [h2] at hb
    | some H =>
      simp only [h2, Option.map_some, Option.some.injEq] at hb
      subst hb
      exact ⟨o, ho, h2, rfl⟩
  have hall : AllDims (regBlocks objs) := by
    intro b hb
    obtain ⟨o, ho, h2, h1⟩ := hmem b hb
    rw [← h1]; exact hd o ho _ h2
  rw [reducedMatrix_eq_blockDiag objs hd]
  refine ⟨blockDiag_dims _ hall, ?_, ?_⟩
  · intro i j
    apply blockDiag_symm _ hall
    intro b hb
    obtain ⟨o, ho, h2, _⟩ := hmem b hb
    exact hs o ho _ h2
  · intro x hx hx0
    apply blockDiag_posdef _ hall _ x hx hx0
    intro b hb
    obtain ⟨o, ho, h2, h1⟩ := hmem b hb
    rw [← h1]; exact hp o ho _ h2

/-! ## (i) the pixel signals behind the adaptive weights

`Impl.adaptivePixelSignals pow …` is `mapper_util.adaptive_pixel_signals_from` (what
`mapper.pixel_signals_from(signal_scale)` returns and `AdaptiveBrightness.regularization_weights_from`
feeds into `adaptive_regularization_weights_from`); `pow` is `x ↦ x ** signal_scale`.
`SignalsWF` = the mapper's tables are well formed (indices valid, a triangle's three vertices distinct and
as many weights as vertices); `Spec.pixelSignalSum / Count / Mean` are the finite sums below. -/

/-- (i) the accumulation loop: on well-formed mapper tables `pixel_signals[p]` ends as
    `Σ_sub Σ_{l<size_sub} [vertex_{sub,l} = p]·adapt[slim(sub)]·weight_{sub,l}` (weight 1 for a sub-pixel
    with a single mapping) and `pixel_sizes[p]` as the number of sub-pixels whose row contains `p` -/
theorem pixel_signals_accumulate_spec (pixels : Nat) (pixelWeights : List (List α))
    (pixIndexes : List (List Int)) (pixSizes : List Nat) (slimForSub : List Nat) (adaptData : List α)
    (hwf : SignalsWF pixels pixelWeights pixIndexes pixSizes) :
    (Impl.pixelSignalAccum pixels pixelWeights pixIndexes pixSizes slimForSub adaptData).1.length = pixels
    ∧ (Impl.pixelSignalAccum pixels pixelWeights pixIndexes pixSizes slimForSub adaptData).2.length = pixels
    ∧ ∀ p, p < pixels →
        (Impl.pixelSignalAccum pixels pixelWeights pixIndexes pixSizes slimForSub adaptData).1.getD p 0
          = pixelSignalSum pixels pixelWeights pixIndexes pixSizes slimForSub adaptData p
        ∧ (Impl.pixelSignalAccum pixels pixelWeights pixIndexes pixSizes slimForSub adaptData).2.getD p 0
          = pixelSignalCount pixels pixIndexes pixSizes p :=
  pixelSignalAccum_spec pixels pixelWeights pixIndexes pixSizes slimForSub adaptData hwf

/-- (i) what `adaptive_pixel_signals_from` returns: one value per source pixel, pixel `p` carrying
    `(mean_p / max_q mean_q) ** signal_scale`, `mean_p` = sum over count (count 0 replaced by 1) -/
theorem pixel_signals_spec (pow : α → α) (pixels : Nat) (hpix : 0 < pixels)
    (pixelWeights : List (List α)) (pixIndexes : List (List Int)) (pixSizes : List Nat)
    (slimForSub : List Nat) (adaptData : List α)
    (hwf : SignalsWF pixels pixelWeights pixIndexes pixSizes) :
    (Impl.adaptivePixelSignals pow pixels pixelWeights pixIndexes pixSizes slimForSub adaptData).length
      = pixels
    ∧ ∃ mx : α,
        (∃ q, q < pixels
          ∧ mx = pixelSignalMean pixels pixelWeights pixIndexes pixSizes slimForSub adaptData q)
        ∧ (∀ q, q < pixels →
            pixelSignalMean pixels pixelWeights pixIndexes pixSizes slimForSub adaptData q ≤ mx)
        ∧ ∀ p, p < pixels →
            (Impl.adaptivePixelSignals pow pixels pixelWeights pixIndexes pixSizes slimForSub
                adaptData).getD p 0
              = pow (pixelSignalMean pixels pixelWeights pixIndexes pixSizes slimForSub adaptData p / mx) :=
  adaptivePixelSignals_spec pow pixels hpix pixelWeights pixIndexes pixSizes slimForSub adaptData hwf

/-- (i) range, for **any** tables (no well-formedness needed): with a non-negative adapt image,
    non-negative interpolation weights and at least one pixel of positive mean signal, and a power function
    mapping `[0,1]` into `[0,1]` with `1 ** s = 1`, every pixel signal lies in `[0, 1]` and the brightest
    pixel has signal exactly 1 -/
theorem pixel_signals_in_unit_interval (pow : α → α)
    (hpow : ∀ t, 0 ≤ t → t ≤ 1 → 0 ≤ pow t ∧ pow t ≤ 1) (hpow1 : pow 1 = 1) (pixels : Nat)
    (pixelWeights : List (List α)) (pixIndexes : List (List Int)) (pixSizes : List Nat)
    (slimForSub : List Nat) (adaptData : List α) (had : ∀ v ∈ adaptData, 0 ≤ v)
    (hw : ∀ r ∈ pixelWeights, ∀ v ∈ r, 0 ≤ v)
    (hpos : ∃ m ∈ Impl.pixelSignalMeans pixels pixelWeights pixIndexes pixSizes slimForSub adaptData, 0 < m) :
    (∀ s ∈ Impl.adaptivePixelSignals pow pixels pixelWeights pixIndexes pixSizes slimForSub adaptData,
        0 ≤ s ∧ s ≤ 1)
    ∧ 1 ∈ Impl.adaptivePixelSignals pow pixels pixelWeights pixIndexes pixSizes slimForSub adaptData := by
  obtain ⟨h1, h2⟩ := adaptivePixelSignals_range pow pixels pixelWeights pixIndexes pixSizes slimForSub
    adaptData had hw hpos
  refine ⟨?_, by rw [← hpow1]; exact h2⟩
  intro s hs
  obtain ⟨t, ht0, ht1, rfl⟩ := h1 s hs
  exact hpow t ht0 ht1

/-- (i) `adaptive_regularization_weights_from`: weight `i` is `(inner·s_i + outer·(1 − s_i))²`; always
    ≥ 0, and > 0 for positive coefficients and signals in `[0, 1]` -/
theorem adaptive_weights_spec (inner outer : α) (signals : List α) :
    (Impl.adaptiveWeights inner outer signals).length = signals.length
    ∧ (∀ i, i < signals.length →
        (Impl.adaptiveWeights inner outer signals).getD i 0
          = (inner * signals.getD i 0 + outer * (1 - signals.getD i 0))
            * (inner * signals.getD i 0 + outer * (1 - signals.getD i 0)))
    ∧ (∀ w ∈ Impl.adaptiveWeights inner outer signals, 0 ≤ w)
    ∧ (0 < inner → 0 < outer → (∀ s ∈ signals, 0 ≤ s ∧ s ≤ 1) →
        ∀ w ∈ Impl.adaptiveWeights inner outer signals, 0 < w) :=
  ⟨by simp [Impl.adaptiveWeights], fun i hi => adaptiveWeights_getD inner outer signals i hi,
    adaptiveWeights_nonneg inner outer signals,
    fun hi ho hs => adaptiveWeights_pos inner outer hi ho signals hs⟩

/-- (i) end to end: the weights `AdaptiveBrightness` reports for a linear object whose pixel signals are
    the ones `adaptive_pixel_signals_from` computes from a non-negative adapt image (some pixel with a
    positive mean) are all strictly positive when both coefficients are -/
theorem adaptive_brightness_weights_pos (pow : α → α)
    (hpow : ∀ t, 0 ≤ t → t ≤ 1 → 0 ≤ pow t ∧ pow t ≤ 1) (hpow1 : pow 1 = 1) (pixels : Nat)
    (pixelWeights : List (List α)) (pixIndexes : List (List Int)) (pixSizes : List Nat)
    (slimForSub : List Nat) (adaptData : List α) (had : ∀ v ∈ adaptData, 0 ≤ v)
    (hw : ∀ r ∈ pixelWeights, ∀ v ∈ r, 0 ≤ v)
    (hpos : ∃ m ∈ Impl.pixelSignalMeans pixels pixelWeights pixIndexes pixSizes slimForSub adaptData, 0 < m)
    (inner outer : α) (hi : 0 < inner) (ho : 0 < outer) (o : Impl.LinObj α)
    (hsig : o.signals
      = Impl.adaptivePixelSignals pow pixels pixelWeights pixIndexes pixSizes slimForSub adaptData) :
    ∀ w ∈ Impl.schemeWeights (.adaptiveBrightness inner outer) o, 0 < w := by
  have h := (pixel_signals_in_unit_interval pow hpow hpow1 pixels pixelWeights pixIndexes pixSizes
    slimForSub adaptData had hw hpos).1
  simp only [Impl.schemeWeights, hsig]
  exact adaptiveWeights_pos inner outer hi ho _ h

/-! ## non-vacuity: concrete instances meeting the hypotheses -/

/-- a 3-pixel chain 0–1–2 (the neighbour table of a 1×3 strip): in range, symmetric, and the constant
    scheme's matrix is the expected tridiagonal one -/
example :
    let N : List (List Nat) := [[1, 0], [0, 2], [1, 0]]
    let S : List Nat := [1, 2, 1]
    InRange 3 N S ∧ Symmetric 3 N S ∧ pairs 3 N S = [(0, 1), (1, 2)]
    ∧ Impl.constantMatrix (1 : Int) 2 N S = [[5, -4, 0], [-4, 9, -4], [0, -4, 5]]
    ∧ Impl.weightedMatrix (0 : Int) [1, 2, 3] N S = [[5, -5, 0], [-5, 18, -13], [0, -13, 13]] := by
  decide

/-- one pixel with its four cross rows (two of them already containing the pixel): the tables are in
    range and distinct -/
example :
    let mp : List (List Nat) := [[0, 1], [1, 0], [0, 1], [1, 0], [1, 0], [0, 1], [1, 0], [0, 1]]
    let S : List Nat := [2, 2, 2, 2, 2, 2, 2, 2]
    SplitInRange (mp.length / 4) mp S ∧ SplitDistinct (mp.length / 4) mp S := by
  refine ⟨?_, ?_⟩
  · intro k hk l hl
    have hk' : k < 8 := by simpa using hk
    interval_cases k <;> simp at hl <;> interval_cases l <;> decide
  · intro k hk l l' hl hl' h
    have hk' : k < 8 := by simpa using hk
    interval_cases k <;> simp at hl hl' <;> interval_cases l <;> interval_cases l' <;> simp_all

/-- the hypotheses of `split_scheme_spec` are satisfiable: two pixels, each cross point lying in a
    "triangle" that reduces to the other pixel (array width 3, one entry per row) -/
example :
    let t : Impl.SplitTables ℚ :=
      { mappings := [[1, -1, -1], [1, -1, -1], [1, -1, -1], [1, -1, -1],
                     [0, -1, -1], [0, -1, -1], [0, -1, -1], [0, -1, -1]],
        sizes := [1, 1, 1, 1, 1, 1, 1, 1],
        weights := [[1, 0, 0], [1, 0, 0], [1, 0, 0], [1, 0, 0],
                    [1, 0, 0], [1, 0, 0], [1, 0, 0], [1, 0, 0]] }
    SplitWF t (4 * 2) 3
    ∧ (∀ k, k < 4 * 2 → ∀ l, l < t.sizes.getD k 0 → 0 ≤ (t.mappings.getD k []).getD l 0)
    ∧ SplitInRange 2 (pyTable 2 t.mappings) t.sizes
    ∧ SplitDistinct 2 (pyTable 2 t.mappings) t.sizes := by
  refine ⟨⟨rfl, rfl, rfl, ?_, ?_, ?_⟩, ?_, ?_, ?_⟩
  · intro i hi; interval_cases i <;> simp
  · intro i hi; interval_cases i <;> simp
  · intro i hi; interval_cases i <;> simp
  · intro k hk l hl
    interval_cases k <;> simp at hl <;> subst hl <;> decide
  · intro k hk l hl
    interval_cases k <;> simp at hl <;> subst hl <;> decide
  · intro k hk l l' hl hl' _
    interval_cases k <;> simp at hl hl' <;> omega

/-- the libm hypotheses of (e) hold for the real functions -/
example : Real.sqrt 0 = 0 ∧ Real.exp 0 = 1 := ⟨Real.sqrt_zero, Real.exp_zero⟩

/-- the hypotheses of the conditional clause (e) are satisfiable: one point, `C = [[1 + ρ]]` -/
example :
    let C : List (List ℚ) := Impl.covMatrix (fun _ => 1) id (1 / 100) [((0 : ℚ), (0 : ℚ))]
    IsPosDef 1 C ∧ IsRightInverse 1 C [[100 / 101]] := by
  have hC : Impl.covMatrix (fun _ => (1 : ℚ)) id (1 / 100) [((0 : ℚ), (0 : ℚ))] = [[101 / 100]] := by
    norm_num [Impl.covMatrix, Mat.addAt, Mat.zeros, List.range, List.range.loop, List.modify]
  simp only [hC]
  constructor
  · intro x hx hx0
    obtain ⟨i, hi, hne⟩ := hx0
    have hi0 : i = 0 := by omega
    subst hi0
    match x, hx with
    | [a], _ =>
      have ha : a ≠ 0 := by simpa using hne
      have : 0 < a * a := mul_self_pos.mpr ha
      simp only [quad, sumRange, entry, List.length_singleton, List.range_one, List.map_cons,
        List.map_nil, List.sum_cons, List.sum_nil, List.getD_cons_zero, add_zero]
      nlinarith
  · intro i j hi hj
    have hi0 : i = 0 := by omega
    have hj0 : j = 0 := by omega
    subst hi0; subst hj0
    norm_num [sumRange, entry]

/-! ### non-vacuity of the extension clauses (e′), (g), (h), (i) -/

/-- (e′) the exponential covariance matrix of two concrete points is positive definite (instance of the
    theorem; its hypotheses `0 ≤ σ`, `0 < ρ` are plainly satisfiable) -/
example : IsPosDef 2
    (Impl.covMatrix (Impl.expKernel Real.exp 1) Real.sqrt (1 / 100) [((0 : ℝ), (0 : ℝ)), (1, 0)]) :=
  exponential_kernel_cov_posdef 1 (1 / 100) (by norm_num) (by norm_num) [((0 : ℝ), (0 : ℝ)), (1, 0)]

/-- (g) a 2×3 mesh: the table the loops read (padding `-1` wrapped to the last pixel, never read), its seven
    adjacent pairs, and the `Constant` matrix (ridge 1, coefficient 1) — the graph Laplacian plus the ridge -/
example :
    Impl.rectMeshNeighbors 2 3
        = [[1, 3, 5, 5], [0, 2, 4, 5], [1, 5, 5, 5], [0, 4, 5, 5], [1, 3, 5, 5], [2, 4, 5, 5]]
    ∧ Impl.rectMeshSizes 2 3 = [2, 3, 2, 2, 3, 2]
    ∧ pairs (2 * 3) (Impl.rectMeshNeighbors 2 3) (Impl.rectMeshSizes 2 3)
        = [(0, 1), (0, 3), (1, 2), (1, 4), (2, 5), (3, 4), (4, 5)]
    ∧ Impl.constantMatrix (1 : Int) 1 (Impl.rectMeshNeighbors 2 3) (Impl.rectMeshSizes 2 3)
        = [[3, -1, 0, -1, 0, 0], [-1, 4, -1, 0, -1, 0], [0, -1, 3, 0, 0, -1],
           [-1, 0, 0, 3, -1, 0], [0, -1, 0, -1, 4, -1], [0, 0, -1, 0, -1, 3]] := by
  decide

/-- (g) the hypotheses of `rect_adaptive_brightness_spec` are satisfiable: a linear object on the 2×3 mesh -/
example : ∃ o : Impl.LinObj ℚ, o.neighbors = Impl.rectMeshNeighbors 2 3
    ∧ o.sizes = Impl.rectMeshSizes 2 3 ∧ o.signals.length = 2 * 3 :=
  ⟨{ params := 6, neighbors := Impl.rectMeshNeighbors 2 3, sizes := Impl.rectMeshSizes 2 3,
     signals := [1, 1 / 2, 0, 1 / 4, 1, 0], split := { mappings := [], sizes := [], weights := [] },
     points := [] }, rfl, rfl, rfl⟩

/-- (h) four objects, the first and the third without a scheme: the index list, the assembled matrix
    (zero blocks in object order), the reduced matrix and the regularized blocks -/
example :
    let objs : List (Nat × Option (List (List Int))) :=
      [(1, none), (2, some [[2, -1], [-1, 2]]), (2, none), (1, some [[3]])]
    Impl.noRegIndexList (regFlags objs) = [0, 3, 4]
    ∧ Impl.inversionMatrix objs
        = [[0, 0, 0, 0, 0, 0], [0, 2, -1, 0, 0, 0], [0, -1, 2, 0, 0, 0], [0, 0, 0, 0, 0, 0],
           [0, 0, 0, 0, 0, 0], [0, 0, 0, 0, 0, 3]]
    ∧ Impl.reducedMatrix objs = [[2, -1, 0], [-1, 2, 0], [0, 0, 3]]
    ∧ regBlocks objs = [(2, [[2, -1], [-1, 2]]), (1, [[3]])] := by
  decide

/-- (h) the hypotheses of `reduced_symm_posdef` are satisfiable: an unregularized object followed by a
    one-pixel mapper whose scheme's matrix is `[[3]]` -/
example :
    let objs : List (Nat × Option (List (List ℚ))) := [(2, none), (1, some [[3]])]
    (∀ o ∈ objs, ∀ H, o.2 = some H → Dims o.1 H)
    ∧ (∀ o ∈ objs, ∀ H, o.2 = some H → ∀ a b, entry H a b = entry H b a)
    ∧ (∀ o ∈ objs, ∀ H, o.2 = some H → ∀ x : List ℚ, x.length = o.1 →
        (∃ i, i < o.1 ∧ x.getD i 0 ≠ 0) → 0 < quad H x) := by
  intro objs
  have key : ∀ o ∈ objs, ∀ H, o.2 = some H → o.1 = 1 ∧ H = [[3]] := by
    intro o ho H hH
    simp only [objs, List.mem_cons, List.not_mem_nil, or_false] at ho
    rcases ho with rfl | rfl
    · simp at hH
    · simp only [Option.some.injEq] at hH
      exact ⟨rfl, hH.symm⟩
  refine ⟨?_, ?_, ?_⟩
  · intro o ho H hH
    obtain ⟨h1, rfl⟩ := key o ho H hH
    rw [h1]
    exact ⟨rfl, by simp⟩
  · intro o ho H hH a b
    obtain ⟨_, rfl⟩ := key o ho H hH
    match a, b with
    | 0, 0 => rfl
    | 0, _ + 1 => simp [entry]
    | _ + 1, 0 => simp [entry]
    | _ + 1, _ + 1 => simp [entry]
  · intro o ho H hH x hx hx0
    obtain ⟨h1, rfl⟩ := key o ho H hH
    rw [h1] at hx hx0
    obtain ⟨i, hi, hne⟩ := hx0
    have hi0 : i = 0 := by omega
    subst hi0
    match x, hx with
    | [a], _ =>
      have ha : a ≠ 0 := by simpa using hne
      have : 0 < a * a := mul_self_pos.mpr ha
      simp only [quad, sumRange, entry, List.length_singleton, List.range_one, List.map_cons,
        List.map_nil, List.sum_cons, List.sum_nil, List.getD_cons_zero, add_zero]
      nlinarith

/-- (i) two source pixels, one sub-pixel inside a "triangle" `{0, 1}` (weights ½, ½, adapt value 2) and one
    mapped to pixel 1 alone (row `[1, -1]`, adapt value 4): the tables are well formed, the adapt image and
    the weights are non-negative, some mean is positive, and the signals are `[2/5, 1]`
    (sums `[1, 5]`, counts `[1, 2]`, means `[1, 5/2]`) -/
example :
    let W : List (List ℚ) := [[1 / 2, 1 / 2], [1, 0]]
    let I : List (List Int) := [[0, 1], [1, -1]]
    SignalsWF 2 W I [2, 1]
    ∧ (∀ v ∈ ([2, 4] : List ℚ), 0 ≤ v) ∧ (∀ r ∈ W, ∀ v ∈ r, 0 ≤ v)
    ∧ (∃ m ∈ Impl.pixelSignalMeans 2 W I [2, 1] [0, 1] [2, 4], 0 < m)
    ∧ Impl.pixelSignalAccum 2 W I [2, 1] [0, 1] [2, 4] = ([1, 5], [1, 2])
    ∧ Impl.adaptivePixelSignals id 2 W I [2, 1] [0, 1] [2, 4] = [2 / 5, 1]
    ∧ Impl.adaptiveWeights (2 : ℚ) 1 [2 / 5, 1] = [49 / 25, 4] := by
  refine ⟨?_, by decide +kernel, by decide +kernel, ⟨1, by decide +kernel, by norm_num⟩,
    by decide +kernel, by decide +kernel, by decide +kernel⟩
  intro sub hsub
  have hsub' : sub < 2 := by simpa using hsub
  interval_cases sub
  · refine ⟨by decide, fun _ => ⟨by decide, by decide, by decide⟩, fun h => absurd (by decide) h⟩
  · refine ⟨by decide, fun h => absurd h (by decide), fun _ => by decide⟩

/-- (i) the contract of `** signal_scale` used by `pixel_signals_in_unit_interval` holds for the real power
    with any exponent `s ≥ 0` (`Real.rpow`; numpy's float power), and for natural-number powers over any
    ordered field (what the driver executes exactly) -/
example (s : ℝ) (hs : 0 ≤ s) :
    (∀ t : ℝ, 0 ≤ t → t ≤ 1 → 0 ≤ t ^ s ∧ t ^ s ≤ 1) ∧ (1 : ℝ) ^ s = 1 :=
  ⟨fun _ h0 h1 => ⟨Real.rpow_nonneg h0 s, Real.rpow_le_one h0 h1 hs⟩, Real.one_rpow s⟩

example (k : Nat) : (∀ t : α, 0 ≤ t → t ≤ 1 → 0 ≤ t ^ k ∧ t ^ k ≤ 1) ∧ (1 : α) ^ k = 1 :=
  ⟨fun _ h0 h1 => ⟨pow_nonneg h0 k, pow_le_one₀ h0 h1⟩, one_pow k⟩

/-- (g′) Qhull's contract is satisfiable: one triangle `{0,1,2}`, CSR `indptr = [0,2,4,6]`,
    `indices = [1,2, 0,2, 0,1]`; the table read by the loops and the `Constant` matrix on it -/
example :
    let indptr := [0, 2, 4, 6]
    let indices := [1, 2, 0, 2, 0, 1]
    (∀ k < 3, (csrSlice indptr indices k).length = indptr.getD (k + 1) 0 - indptr.getD k 0)
    ∧ (∀ k < 3, ∀ j, j ∈ csrSlice indptr indices k ↔
        (j < 3 ∧ j ≠ k ∧ ∃ s ∈ [[0, 1, 2]], k ∈ s ∧ j ∈ s))
    ∧ (∀ k < 3, (csrSlice indptr indices k).Nodup)
    ∧ Impl.delaunayMeshNeighbors indptr indices 3 = [[1, 2], [0, 2], [0, 1]]
    ∧ Impl.constantMatrix (1 : Int) 1 (Impl.delaunayMeshNeighbors indptr indices 3)
        (Impl.delaunayMeshSizes indptr indices 3) = [[3, -1, -1], [-1, 3, -1], [-1, -1, 3]] := by
  refine ⟨by decide, ?_, by decide, by decide, by decide⟩
  intro k hk j
  interval_cases k <;> simp [csrSlice] <;> omega

end C07
