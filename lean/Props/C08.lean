/-
Props/C08.lean — property C08: fit statistics and evidence follow their definitions on unmasked
pixels only.

All theorems are about the `Impl` layer of Model/Fit.lean (the transliteration of
`autoarray/fit/fit_util.py`, `fit_dataset.py`, `fit_imaging.py` and the evidence terms of
`inversion/inversion/abstract.py`), for every mask, every shape, every data / noise / model array,
every background level and every list of linear objects; numbers range over an arbitrary field `α`
(ordered where the signal-to-noise clip is concerned).  `log`, `2π` and the log-determinant are
arbitrary functions: nothing is assumed about them, so every statement holds in particular for
`Real.log`, `2 * Real.pi` and `log ∘ det`.
Helper lemmas live in Proofs/Fit.lean.
-/
import Model.Fit
import Model.Slim
import Proofs.Fit
import Proofs.FitLogDet
import Mathlib.Tactic.IntervalCases
import Mathlib.Tactic.FinCases
import Mathlib.Tactic.NormNum
import Mathlib.Algebra.Order.Field.Rat

open Model Model.Impl.Fit Model.FitProofs

namespace C08

variable {α : Type}

/-! ## (a) the maps obey their definitions element-wise -/

/-- (a0) the data a fit works with: `FitImaging` subtracts the dataset model's background sky level
    from every stored entry, a plain `FitDataset` uses the data as it is. -/
theorem a_background_offset [Field α] [BEq α] [LawfulBEq α] (f : FitInput α) :
    fitData f = f.data.map (fun x => x - (if f.isImaging then f.background else 0)) :=
  fitData_eq f

/-- (a1) slim evaluation (`use_mask_in_fit = False`): at every stored entry `k`, with `x` the data
    (after the background offset `b`), `y` the model and `z` the noise there,
    residual `= x - y`, normalized residual `= (x - y)/z`, chi-squared map `= ((x - y)/z)²`,
    residual flux fraction `= (x - y)/x`. -/
theorem a_maps_slim [Field α] [BEq α] [LawfulBEq α] (f : FitInput α) (hu : f.useMask = false)
    (k : Nat) (x y z : α)
    (hx : f.data[k]? = some x) (hy : f.model[k]? = some y) (hz : f.noise[k]? = some z) :
    let b := if f.isImaging then f.background else 0
    (fitResidualMap f)[k]? = some (x - b - y)
    ∧ (fitNormalizedResidualMap f)[k]? = some ((x - b - y) / z)
    ∧ (fitChiSquaredMap f)[k]? = some (((x - b - y) / z) ^ 2)
    ∧ (fitResidualFluxFractionMap f)[k]? = some ((x - b - y) / (x - b)) :=
  slim_maps_getElem? f hu k x y z hx hy hz

/-- (a2) masked-native evaluation (`use_mask_in_fit = True` on native-stored arrays): the same four
    definitions at every unmasked cell, and zero at every masked cell whatever is stored there. -/
theorem a_maps_masked [Field α] [BEq α] [LawfulBEq α] (f : FitInput α) (hu : f.useMask = true)
    (k : Nat) (mk : Bool) (x y z : α) (hm : f.bits[k]? = some mk)
    (hx : f.data[k]? = some x) (hy : f.model[k]? = some y) (hz : f.noise[k]? = some z) :
    let b := if f.isImaging then f.background else 0
    (fitResidualMap f)[k]? = some (if mk then 0 else x - b - y)
    ∧ (fitNormalizedResidualMap f)[k]? = some (if mk then 0 else (x - b - y) / z)
    ∧ (fitChiSquaredMap f)[k]? = some (if mk then 0 else ((x - b - y) / z) ^ 2)
    ∧ (fitResidualFluxFractionMap f)[k]? = some (if mk then 0 else (x - b - y) / (x - b)) :=
  masked_maps_getElem? f hu k mk x y z hm hx hy hz

/-- (a3) signal-to-noise map: `data / noise` with negative values clipped to zero (so never
    negative), entry by entry. -/
theorem a_signal_to_noise_clipped [Field α] [LinearOrder α] [BEq α] [LawfulBEq α] (f : FitInput α)
    (k : Nat) (x z : α) (hx : f.data[k]? = some x) (hz : f.noise[k]? = some z) :
    let b := if f.isImaging then f.background else 0
    (fitSignalToNoiseMap f)[k]? = some (max ((x - b) / z) 0)
    ∧ ∀ v, (fitSignalToNoiseMap f)[k]? = some v → 0 ≤ v := by
  intro b
  have h := signalToNoise_getElem? (fitData f) f.noise k (x - b) z (fitData_getElem? f k x hx) hz
  refine ⟨h, ?_⟩
  intro v hv
  rw [show fitSignalToNoiseMap f = signalToNoiseMap (fitData f) f.noise from rfl, h] at hv
  cases hv
  exact le_max_right _ _

/-- (a4) `reduced_chi_squared = chi_squared / (number of unmasked pixels)`. -/
theorem a_reduced_chi_squared [Field α] [BEq α] (f : FitInput α) :
    fitReducedChiSquared f = fitChiSquared f / (((f.bits.filter fun b => !b).length : Nat) : α) := by
  unfold fitReducedChiSquared
  rw [count_unmasked]

/-! ## (b) sums over unmasked pixels only; masked cells never matter; both modes agree -/

/-- (b0) numpy's `a[mask == 0]` on a native array is exactly C01's `array_2d_slim_from`. -/
theorem b_select_is_slim (m : Mask) (hm : m.WF) (a : List α) (zero : α) (ha : a.length = m.h * m.w) :
    selectUnmasked m.bits a = Impl.slimFrom m a zero :=
  selectUnmasked_eq_slimFrom m hm a zero ha

/-- (b1) chi-squared and the noise normalization of the masked-native evaluation are the sums of
    `((d_k - b - m_k)/n_k)²` and `log(2π n_k²)` over the unmasked flat positions `k` only. -/
theorem b_masked_sums_over_unmasked [Field α] [BEq α] [LawfulBEq α] (log : α → α) (twoPi : α)
    (f : FitInput α) (hu : f.useMask = true)
    (hd : f.data.length = f.bits.length) (hm : f.model.length = f.bits.length)
    (hn : f.noise.length = f.bits.length) :
    let b := if f.isImaging then f.background else 0
    let unmasked := (List.range f.bits.length).filter fun k => !f.bits.getD k true
    fitChiSquared f
      = (unmasked.map fun k => ((f.data.getD k 0 - b - f.model.getD k 0) / f.noise.getD k 0) ^ 2).sum
    ∧ fitNoiseNormalization log twoPi f
      = (unmasked.map fun k => log (twoPi * (f.noise.getD k 0) ^ 2)).sum :=
  ⟨fitChiSquared_masked_sum f hu hd hm hn, fitNoiseNormalization_masked_sum log twoPi f hu hn⟩

/-- (b2) the slim evaluation sums the same terms over every stored entry (one per unmasked pixel). -/
theorem b_slim_sums [Field α] [BEq α] [LawfulBEq α] (log : α → α) (twoPi : α)
    (f : FitInput α) (hu : f.useMask = false) (N : Nat)
    (hd : f.data.length = N) (hm : f.model.length = N) (hn : f.noise.length = N) :
    let b := if f.isImaging then f.background else 0
    fitChiSquared f
      = ((List.range N).map fun k =>
          ((f.data.getD k 0 - b - f.model.getD k 0) / f.noise.getD k 0) ^ 2).sum
    ∧ fitNoiseNormalization log twoPi f = (f.noise.map fun z => log (twoPi * z ^ 2)).sum :=
  ⟨fitChiSquared_slim_sum f hu N hd hm hn, fitNoiseNormalization_slim_sum log twoPi f hu⟩

/-- (b3) the two evaluation modes agree: on native arrays `d n mo` with arbitrary values in masked
    cells, the masked-native fit and the slim fit on `array_2d_slim_from` of the same arrays have
    equal chi-squared, noise normalization and log likelihood, and every masked-native map restricted
    to the unmasked pixels is the corresponding slim map. -/
theorem b_masked_native_eq_slim [Field α] [BEq α] [LawfulBEq α] (log : α → α) (twoPi : α)
    (m : Mask) (hm : m.WF) (img : Bool) (d n mo : List α) (bg : α)
    (hd : d.length = m.h * m.w) (hn : n.length = m.h * m.w) (hmo : mo.length = m.h * m.w) :
    let fN : FitInput α := { useMask := true, isImaging := img, bits := m.bits, data := d, noise := n,
                             model := mo, background := bg }
    let fS : FitInput α := { useMask := false, isImaging := img, bits := m.bits,
                             data := Impl.slimFrom m d 0, noise := Impl.slimFrom m n 0,
                             model := Impl.slimFrom m mo 0, background := bg }
    fitChiSquared fN = fitChiSquared fS
    ∧ fitNoiseNormalization log twoPi fN = fitNoiseNormalization log twoPi fS
    ∧ fitLogLikelihood log twoPi fN = fitLogLikelihood log twoPi fS
    ∧ selectUnmasked m.bits (fitResidualMap fN) = fitResidualMap fS
    ∧ selectUnmasked m.bits (fitNormalizedResidualMap fN) = fitNormalizedResidualMap fS
    ∧ selectUnmasked m.bits (fitChiSquaredMap fN) = fitChiSquaredMap fS
    ∧ selectUnmasked m.bits (fitResidualFluxFractionMap fN) = fitResidualFluxFractionMap fS := by
  intro fN fS
  have h1 := fitChiSquared_native_eq_slim m hm img d n mo bg hd hn hmo
  have h2 := fitNoiseNormalization_native_eq_slim m hm img d n mo bg hn log twoPi
  refine ⟨h1, h2, ?_, select_fitResidualMap m hm img d n mo bg hd hmo,
    select_fitNormalizedResidualMap m hm img d n mo bg hd hn hmo,
    select_fitChiSquaredMap m hm img d n mo bg hd hn hmo,
    select_fitResidualFluxFractionMap m hm img d n mo bg hd hmo⟩
  show logLikelihood (fitChiSquared fN) (fitNoiseNormalization log twoPi fN)
     = logLikelihood (fitChiSquared fS) (fitNoiseNormalization log twoPi fS)
  rw [show fitChiSquared fN = fitChiSquared fS from h1,
      show fitNoiseNormalization log twoPi fN = fitNoiseNormalization log twoPi fS from h2]

/-- (b4) values carried in masked cells never change anything: two masked-native fits whose data,
    noise and model arrays agree at every unmasked cell have the same chi-squared, noise
    normalization, log likelihood, and identical residual / normalized-residual / chi-squared maps. -/
theorem b_masked_values_irrelevant [Field α] [BEq α] [LawfulBEq α] (log : α → α) (twoPi : α)
    (f g : FitInput α) (hf : f.useMask = true) (hg : g.useMask = true)
    (hbits : g.bits = f.bits) (himg : g.isImaging = f.isImaging) (hbg : g.background = f.background)
    (hfd : f.data.length = f.bits.length) (hfm : f.model.length = f.bits.length)
    (hfn : f.noise.length = f.bits.length)
    (hgd : g.data.length = f.bits.length) (hgm : g.model.length = f.bits.length)
    (hgn : g.noise.length = f.bits.length)
    (hagree : ∀ k, f.bits.getD k true = false →
      f.data.getD k 0 = g.data.getD k 0 ∧ f.model.getD k 0 = g.model.getD k 0
        ∧ f.noise.getD k 0 = g.noise.getD k 0) :
    fitChiSquared f = fitChiSquared g
    ∧ fitNoiseNormalization log twoPi f = fitNoiseNormalization log twoPi g
    ∧ fitLogLikelihood log twoPi f = fitLogLikelihood log twoPi g
    ∧ fitResidualMap f = fitResidualMap g
    ∧ fitNormalizedResidualMap f = fitNormalizedResidualMap g
    ∧ fitChiSquaredMap f = fitChiSquaredMap g := by
  have hb : bgEff g = bgEff f := by simp [bgEff, himg, hbg]
  have hc : fitChiSquared f = fitChiSquared g := by
    rw [fitChiSquared_masked_sum f hf hfd hfm hfn,
      fitChiSquared_masked_sum g hg (by rw [hbits]; exact hgd) (by rw [hbits]; exact hgm)
        (by rw [hbits]; exact hgn), hbits, hb]
    congr 1
    apply List.map_congr_left
    intro k hk
    simp only [Spec.Fit.unmaskedIdx, List.mem_filter] at hk
    obtain ⟨h1, h2, h3⟩ := hagree k (by simpa using hk.2)
    rw [h1, h2, h3]
  have hnn : fitNoiseNormalization log twoPi f = fitNoiseNormalization log twoPi g := by
    rw [fitNoiseNormalization_masked_sum log twoPi f hf hfn,
      fitNoiseNormalization_masked_sum log twoPi g hg (by rw [hbits]; exact hgn), hbits]
    congr 1
    apply List.map_congr_left
    intro k hk
    simp only [Spec.Fit.unmaskedIdx, List.mem_filter] at hk
    rw [(hagree k (by simpa using hk.2)).2.2]
  -- the maps: compare entry by entry
  have hlenD : ∀ h : FitInput α, h.useMask = true → h.data.length = f.bits.length →
      h.model.length = f.bits.length → h.noise.length = f.bits.length → h.bits = f.bits →
      (fitResidualMap h).length = f.bits.length
      ∧ (fitNormalizedResidualMap h).length = f.bits.length
      ∧ (fitChiSquaredMap h).length = f.bits.length := by
    intro h hu h1 h2 h3 h4
    have r : (fitResidualMap h).length = f.bits.length := by
      simp only [fitResidualMap, hu, if_true]
      rw [← h4]
      exact residualMapWithMask_length _ _ _ (by rw [fitData_length, h4]; exact h1) (by rw [h4]; exact h2)
    refine ⟨r, ?_, ?_⟩
    · simp only [fitNormalizedResidualMap, hu, if_true]
      rw [← h4]
      exact maskedZipWith_length _ _ _ _ (by rw [h4]; exact r) (by rw [h4]; exact h3)
    · simp only [fitChiSquaredMap, hu, if_true, chiSquaredMapWithMask, List.length_map]
      rw [← h4]
      exact maskedZipWith_length _ _ _ _ (by rw [h4]; exact r) (by rw [h4]; exact h3)
  obtain ⟨lf1, lf2, lf3⟩ := hlenD f hf hfd hfm hfn rfl
  obtain ⟨lg1, lg2, lg3⟩ := hlenD g hg hgd hgm hgn hbits
  have hentry : ∀ k, k < f.bits.length →
      (fitResidualMap f)[k]? = (fitResidualMap g)[k]?
      ∧ (fitNormalizedResidualMap f)[k]? = (fitNormalizedResidualMap g)[k]?
      ∧ (fitChiSquaredMap f)[k]? = (fitChiSquaredMap g)[k]? := by
    intro k hk
    have hbk := getElem?_eq_some_getD f.bits k true hk
    have e1 := masked_maps_getElem? f hf k _ _ _ _ hbk
      (getElem?_eq_some_getD f.data k 0 (by omega)) (getElem?_eq_some_getD f.model k 0 (by omega))
      (getElem?_eq_some_getD f.noise k 0 (by omega))
    have e2 := masked_maps_getElem? g hg k _ _ _ _ (by rw [hbits]; exact hbk)
      (getElem?_eq_some_getD g.data k 0 (by omega)) (getElem?_eq_some_getD g.model k 0 (by omega))
      (getElem?_eq_some_getD g.noise k 0 (by omega))
    rw [e1.1, e1.2.1, e1.2.2.1, e2.1, e2.2.1, e2.2.2.1, hb]
    cases hmk : f.bits.getD k true
    · obtain ⟨h1, h2, h3⟩ := hagree k hmk
      rw [h1, h2, h3]
      simp
    · simp
  have hext : ∀ (A B : List α), A.length = f.bits.length → B.length = f.bits.length →
      (∀ k, k < f.bits.length → A[k]? = B[k]?) → A = B := by
    intro A B hA hB h
    apply List.ext_getElem?
    intro k
    by_cases hk : k < f.bits.length
    · exact h k hk
    · rw [List.getElem?_eq_none (by omega), List.getElem?_eq_none (by omega)]
  refine ⟨hc, hnn, ?_, hext _ _ lf1 lg1 (fun k hk => (hentry k hk).1),
    hext _ _ lf2 lg2 (fun k hk => (hentry k hk).2.1), hext _ _ lf3 lg3 (fun k hk => (hentry k hk).2.2)⟩
  show logLikelihood (fitChiSquared f) (fitNoiseNormalization log twoPi f)
     = logLikelihood (fitChiSquared g) (fitNoiseNormalization log twoPi g)
  rw [hc, hnn]

/-! ## (c) likelihood, evidence, figure of merit -/

/-- (c1) `log_likelihood = -(chi_squared + noise_normalization) / 2`. -/
theorem c_log_likelihood [Field α] [BEq α] (log : α → α) (twoPi : α) (f : FitInput α) :
    fitLogLikelihood log twoPi f = -(fitChiSquared f + fitNoiseNormalization log twoPi f) / 2 := by
  unfold fitLogLikelihood logLikelihood negHalf
  ring

/-- (c2) with an inversion, `log_evidence = -(χ² + sᵀHs + ld(F+H) - ld(H) + norm)/2` and
    `log_likelihood_with_regularization = -(χ² + sᵀHs + norm)/2`; without one both are `None`. -/
theorem c_log_evidence [Field α] [BEq α] (log : α → α) (twoPi : α) (f : FitInput α) (t : InvTerms α) :
    fitLogEvidence log twoPi f (some t)
      = some (-(fitChiSquared f + t.regularizationTerm + t.logDetCurvatureReg - t.logDetRegularization
              + fitNoiseNormalization log twoPi f) / 2)
    ∧ fitLogLikelihoodWithRegularization log twoPi f (some t)
      = some (-(fitChiSquared f + t.regularizationTerm + fitNoiseNormalization log twoPi f) / 2)
    ∧ fitLogEvidence log twoPi f none = none
    ∧ fitLogLikelihoodWithRegularization log twoPi f none = none := by
  refine ⟨?_, ?_, rfl, rfl⟩
  · simp only [fitLogEvidence, Option.map_some, logEvidence, negHalf]
    congr 1; ring
  · simp only [fitLogLikelihoodWithRegularization, Option.map_some, logLikelihoodWithRegularization,
      negHalf]
    congr 1; ring

/-- (c3) the figure of merit is the evidence when an inversion is present and the likelihood
    otherwise. -/
theorem c_figure_of_merit [Field α] [BEq α] (log : α → α) (twoPi : α) (f : FitInput α) :
    (∀ t : InvTerms α, some (fitFigureOfMerit log twoPi f (some t)) = fitLogEvidence log twoPi f (some t))
    ∧ fitFigureOfMerit log twoPi f none = fitLogLikelihood log twoPi f := by
  refine ⟨fun t => ?_, rfl⟩
  simp [fitFigureOfMerit, fitLogEvidence]

/-- (c4) an inversion none of whose linear objects is regularized contributes three zero terms, so
    its evidence is the plain likelihood. -/
theorem c_unregularized_inversion_gives_likelihood [Field α] [BEq α] (log : α → α) (twoPi : α)
    (logDet : List (List α) → α) (f : FitInput α) (F : List (List α)) (s : List α)
    (objs : List (LinObj α)) (h : hasRegularization objs = false) :
    fitFigureOfMerit log twoPi f (some (invTerms logDet F s objs)) = fitLogLikelihood log twoPi f := by
  simp only [fitFigureOfMerit, fitLogEvidence, Option.map_some, invTerms, regularizationTerm,
    logDetCurvatureRegTerm, logDetRegularizationTerm, h, Bool.not_false, if_true, logEvidence,
    fitLogLikelihood, logLikelihood]
  ring

/-! ## (c') the log-determinant terms are `log det` — over ℝ, factorisations under their contracts -/

/-- (c5) `log_det_curvature_reg_matrix_term` (and the Cholesky fallback of the regularization term)
    evaluates `2.0 * np.sum(np.log(np.diag(np.linalg.cholesky(A))))`.  Whenever the factor `L = chol A`
    meets numpy's contract — `n×n`, zero above the diagonal, positive diagonal, `L·Lᵀ = A` — that value
    is `log det A` (and `det A > 0`), with `Real.log` and Mathlib's determinant of the `n×n` matrix
    of `A`'s entries. -/
theorem c_log_det_via_cholesky (n : Nat) (chol : List (List ℝ) → List (List ℝ)) (A : List (List ℝ))
    (hlen : (chol A).length = n)
    (hlower : ∀ i j, i < n → j < n → i < j → ((chol A).getD i []).getD j 0 = 0)
    (hpos : ∀ i, i < n → 0 < ((chol A).getD i []).getD i 0)
    (hmul : ∀ i j, i < n → j < n →
      ((List.range n).map fun k =>
        ((chol A).getD i []).getD k 0 * ((chol A).getD j []).getD k 0).sum = (A.getD i []).getD j 0) :
    logDetViaCholesky Real.log chol A
      = Real.log (Matrix.det (Matrix.of fun (i j : Fin n) => (A.getD i []).getD j 0))
    ∧ 0 < Matrix.det (Matrix.of fun (i j : Fin n) => (A.getD i []).getD j 0) :=
  logDetViaCholesky_eq n chol A ⟨hlen, hlower, hpos, hmul⟩

/-- (c6) `log_det_regularization_matrix_term` on its SuperLU path evaluates
    `Re( Σ log(diag L) + Σ log(diag U) )` with complex logarithms, i.e. `Σ log|l_ii| + Σ log|u_ii|`.
    Whenever `(L, U) = lu A` meets the contract the code relies on — `L` lower-, `U` upper-triangular,
    `P_r·A·P_c = L·U` for some row / column permutations — and `A` is non-singular, that value is
    `log |det A|`; for `det A > 0` (a positive-definite regularization matrix) it is `log det A`. -/
theorem c_log_det_via_lu (n : Nat) (lu : List (List ℝ) → List (List ℝ) × List (List ℝ))
    (A : List (List ℝ)) (σ τ : Equiv.Perm (Fin n))
    (hlenL : (lu A).1.length = n) (hlenU : (lu A).2.length = n)
    (hlowerL : ∀ i j, i < n → j < n → i < j → (((lu A).1).getD i []).getD j 0 = 0)
    (hupperU : ∀ i j, i < n → j < n → j < i → (((lu A).2).getD i []).getD j 0 = 0)
    (hmul : ∀ i j : Fin n,
      ((List.range n).map fun k =>
        (((lu A).1).getD i []).getD k 0 * (((lu A).2).getD k []).getD j 0).sum
        = (A.getD (σ i) []).getD (τ j) 0)
    (hdet : Matrix.det (Matrix.of fun (i j : Fin n) => (A.getD i []).getD j 0) ≠ 0) :
    logDetViaLU Real.log (fun x => |x|) lu A
      = Real.log |Matrix.det (Matrix.of fun (i j : Fin n) => (A.getD i []).getD j 0)|
    ∧ (0 < Matrix.det (Matrix.of fun (i j : Fin n) => (A.getD i []).getD j 0) →
        logDetViaLU Real.log (fun x => |x|) lu A
          = Real.log (Matrix.det (Matrix.of fun (i j : Fin n) => (A.getD i []).getD j 0))) := by
  have h := logDetViaLU_eq n lu A σ τ ⟨hlenL, hlenU, hlowerL, hupperU, hmul⟩ hdet
  refine ⟨h, fun hp => ?_⟩
  rw [h]
  congr 1
  exact abs_of_pos hp

/-- (c7) the evidence with the mathematical determinants.  Over ℝ with `Real.log`, for an inversion
    with at least one regularized object whose three terms are computed as the code computes them
    (Cholesky of the reduced `F + H`, SuperLU of the reduced `H`), under the factorisation contracts and
    `det H_red > 0`:
    `log_evidence = -(χ² + sᵀ H s + log det (F+H)_red − log det H_red + noise normalization) / 2`,
    where the reduced matrices are those characterised in (d4)/(d5). -/
theorem c_log_evidence_with_determinants [BEq ℝ] (twoPi : ℝ) (f : FitInput ℝ)
    (chol : List (List ℝ) → List (List ℝ)) (lu : List (List ℝ) → List (List ℝ) × List (List ℝ))
    (F : List (List ℝ)) (s : List ℝ) (objs : List (LinObj ℝ))
    (hwf : ObjsWF objs) (hs : s.length = totalParams objs) (hhas : hasRegularization objs = true)
    (n₁ n₂ : Nat) (σ τ : Equiv.Perm (Fin n₂))
    (hchol : CholeskyContract n₁ (curvatureRegMatrixReduced F objs)
      (chol (curvatureRegMatrixReduced F objs)))
    (hlu : LUContract n₂ (regularizationMatrixReduced objs) (lu (regularizationMatrixReduced objs)).1
      (lu (regularizationMatrixReduced objs)).2 σ τ)
    (hdetH : 0 < (toMatrix n₂ (regularizationMatrixReduced objs)).det) :
    fitLogEvidence Real.log twoPi f
        (some (invTermsViaFactorisations Real.log (fun x => |x|) chol lu F s objs))
      = some (-(fitChiSquared f
                + dot s (matVec (regularizationMatrix objs) s)
                + Real.log (toMatrix n₁ (curvatureRegMatrixReduced F objs)).det
                - Real.log (toMatrix n₂ (regularizationMatrixReduced objs)).det
                + fitNoiseNormalization Real.log twoPi f) / 2) := by
  have h1 := (logDetViaCholesky_eq n₁ chol _ hchol).1
  have h2 := logDetViaLU_eq n₂ lu _ σ τ hlu (ne_of_gt hdetH)
  rw [abs_of_pos hdetH] at h2
  have h3 := regularizationTerm_eq_full objs hwf s hs hhas
  rw [(c_log_evidence Real.log twoPi f _).1]
  simp only [invTermsViaFactorisations, logDetCurvatureRegTerm, logDetRegularizationTerm, hhas,
    Bool.not_true, Bool.false_eq_true, if_false, h1, h2, h3]

/-! ## (d) the evidence terms live on the regularized parameters only -/

/-- (d1) `no_regularization_index_list` is, object by object in order, the block of parameter indices
    of every linear object without a regularization scheme (`Spec.Fit.noRegFrom`), i.e. index `i`
    is listed iff it falls in the parameter range of such an object. -/
theorem d_no_regularization_index_list (objs : List (LinObj α)) :
    noRegularizationIndexList objs = Spec.Fit.noRegFrom 0 objs
    ∧ ∀ (o : LinObj α) (os : List (LinObj α)) (i : Nat),
        i ∈ Spec.Fit.noRegFrom 0 (o :: os)
          ↔ (o.reg.isNone = true ∧ i < o.params)
            ∨ (o.params ≤ i ∧ i - o.params ∈ Spec.Fit.noRegFrom 0 os) :=
  ⟨noRegularizationIndexList_eq objs, mem_noRegFrom_cons⟩

/-- (d1') that list is strictly ascending (so it has no repetitions: `np.delete` and the diagonal
    additions of the curvature matrix touch each unregularized parameter exactly once). -/
theorem d_no_regularization_index_list_sorted (objs : List (LinObj α)) :
    (noRegularizationIndexList objs).Pairwise (· < ·) ∧ (noRegularizationIndexList objs).Nodup := by
  rw [noRegularizationIndexList_eq]
  have h := noRegFrom_sorted objs 0
  exact ⟨h, h.imp (fun hab => Nat.ne_of_lt hab)⟩

/-- (d2) `regularization_matrix` (block-diagonal, zero blocks for unregularized objects) is
    `total_params × total_params` and vanishes on every row and every column belonging to an
    unregularized parameter. -/
theorem d_regularization_matrix_unregularized_zero [Field α] (objs : List (LinObj α))
    (hwf : ObjsWF objs) :
    (regularizationMatrix objs).length = totalParams objs
    ∧ (∀ r ∈ regularizationMatrix objs, r.length = totalParams objs)
    ∧ ∀ i j, (i ∈ noRegularizationIndexList objs ∨ j ∈ noRegularizationIndexList objs) →
        (((regularizationMatrix objs).getD i []).getD j 0) = 0 := by
  obtain ⟨d1, d2⟩ := regularizationMatrix_dims objs hwf
  refine ⟨d1, d2, ?_⟩
  intro i j hij
  rw [noRegularizationIndexList_eq] at hij
  exact regularizationMatrix_zero objs hwf i j hij

/-- (d3) `regularization_term`, although computed from the reduced vector and matrix, equals the full
    quadratic form `sᵀ H s` (the unregularized block of `H` is zero). -/
theorem d_regularization_term_reduced [Field α] (objs : List (LinObj α)) (hwf : ObjsWF objs)
    (s : List α) (hs : s.length = totalParams objs) (hhas : hasRegularization objs = true) :
    regularizationTerm s objs = dot s (matVec (regularizationMatrix objs) s) :=
  regularizationTerm_eq_full objs hwf s hs hhas

/-- (d4) partially regularized list: the matrices handed to the two log-determinants are exactly
    `F + H` and `H` with the rows and columns of the unregularized parameters removed — entry `(a,b)`
    of the reduced matrix is entry `(keep[a], keep[b])` of the full one, `keep` the ascending list of
    regularized parameter indices — and the reduced reconstruction is `s` at `keep`. -/
theorem d_reduced_matrices [Field α] (logDet : List (List α) → α) (objs : List (LinObj α))
    (hwf : ObjsWF objs) (F : List (List α)) (s : List α)
    (hF : F.length = totalParams objs) (hFr : ∀ r ∈ F, r.length = totalParams objs)
    (hs : s.length = totalParams objs)
    (hhas : hasRegularization objs = true) (hall : allHaveRegularization objs = false) :
    let keep := (List.range (totalParams objs)).filter fun i => !(noRegularizationIndexList objs).contains i
    let H := regularizationMatrix objs
    let FHred := keep.map fun i => keep.map fun j => (F.getD i []).getD j 0 + (H.getD i []).getD j 0
    let Hred := keep.map fun i => keep.map fun j => (H.getD i []).getD j 0
    curvatureRegMatrixReduced F objs = FHred
    ∧ regularizationMatrixReduced objs = Hred
    ∧ reconstructionReduced s objs = keep.map (fun i => s.getD i 0)
    ∧ logDetCurvatureRegTerm logDet F objs = logDet FHred
    ∧ logDetRegularizationTerm logDet objs = logDet Hred := by
  intro keep H FHred Hred
  obtain ⟨h1, h2, h3⟩ := reduced_entries objs hwf F s hF hFr hhas hall
  have hk : keep = Spec.Fit.keepIdx (totalParams objs) (Spec.Fit.noRegFrom 0 objs) := by
    simp only [keep, Spec.Fit.keepIdx, noRegularizationIndexList_eq]
  rw [← hk] at h1 h2 h3
  refine ⟨h1, h2, h3 hs, ?_, ?_⟩
  · unfold logDetCurvatureRegTerm
    simp only [hhas, Bool.not_true, Bool.false_eq_true, if_false]
    rw [h1]
    rfl
  · unfold logDetRegularizationTerm
    simp only [hhas, Bool.not_true, Bool.false_eq_true, if_false]
    rw [h2]
    rfl

/-- (d5) fully regularized list: nothing is removed — there is no unregularized index, and the
    reduced matrices / vector are `F + H`, `H` and `s` themselves. -/
theorem d_all_regularized_nothing_removed [Field α] (objs : List (LinObj α)) (F : List (List α))
    (s : List α) (hall : allHaveRegularization objs = true) :
    noRegularizationIndexList objs = []
    ∧ curvatureRegMatrixReduced F objs = curvatureRegMatrix F objs
    ∧ regularizationMatrixReduced objs = regularizationMatrix objs
    ∧ reconstructionReduced s objs = s := by
  refine ⟨?_, by simp [curvatureRegMatrixReduced, hall], by simp [regularizationMatrixReduced, hall],
    by simp [reconstructionReduced, hall]⟩
  rw [noRegularizationIndexList_eq]
  exact noRegFrom_nil_of_all objs 0 ((allHave_iff objs).mp hall)

/-! ## non-vacuity: concrete instances (integer arithmetic; the divisions that matter are exact) -/

/-- a 2×3 mask with junk in the masked cells: the masked-native statistics ignore the junk. -/
example :
    let f : FitInput Int :=
      { useMask := true, isImaging := true, bits := [true, false, false, false, true, false],
        data := [900, 7, 9, 13, -777, 3], noise := [-5, 2, 1, 4, 0, 2], model := [1, 2, 3, 0, 12345, 8],
        background := 1 }
    fitData f = [899, 6, 8, 12, -778, 2]
    ∧ fitResidualMap f = [0, 4, 5, 12, 0, -6]
    ∧ fitNormalizedResidualMap f = [0, 2, 5, 3, 0, -3]
    ∧ fitChiSquaredMap f = [0, 4, 25, 9, 0, 9]
    ∧ fitChiSquared f = 47
    ∧ fitSignalToNoiseMap f = [0, 3, 8, 3, 0, 1] := by
  decide

/-- the slim evaluation of the same unmasked values gives the same maps and the same chi-squared. -/
example :
    let f : FitInput Int :=
      { useMask := false, isImaging := true, bits := [true, false, false, false, true, false],
        data := [7, 9, 13, 3], noise := [2, 1, 4, 2], model := [2, 3, 0, 8], background := 1 }
    fitResidualMap f = [4, 5, 12, -6] ∧ fitChiSquaredMap f = [4, 25, 9, 9] ∧ fitChiSquared f = 47
    ∧ fitReducedChiSquared f = 11 := by
  decide

/-- the hypotheses of (b3) and (d3)/(d4) are satisfiable over a field: instances at `ℚ`
    (a 1×3 mask with a junk value in the masked cell; the 2+1+1 object list below). -/
example :=
  b_masked_native_eq_slim (α := ℚ) (fun x => x) 6 ⟨1, 3, [false, true, false]⟩ rfl true
    [5, 1000, 3] [1, -7, 2] [0, 99, 1] (1 / 2) rfl rfl rfl

example :=
  d_reduced_matrices (α := ℚ) (fun _ => 0)
    [{ params := 2, reg := some [[2, -1], [-1, 2]] }, { params := 1, reg := none },
     { params := 1, reg := some [[3]] }]
    (by intro o ho m hm
        simp only [List.mem_cons, List.not_mem_nil, or_false] at ho
        rcases ho with rfl | rfl | rfl <;> simp at hm <;> subst hm <;> simp)
    [[5, 1, 0, 0], [1, 5, 1, 0], [0, 1, 4, 1], [0, 0, 1, 6]] [1, 2, 10, 3]
    rfl (by intro r hr; simp at hr; rcases hr with rfl | rfl | rfl | rfl <;> rfl) rfl rfl rfl

/-- the factorisation contracts of (c5)–(c7) are satisfiable: `[[4,2],[2,5]] = L·Lᵀ` with
    `L = [[2,0],[1,2]]`, and `= L'·U'` with `L' = [[1,0],[1/2,1]]`, `U' = [[4,2],[0,4]]`. -/
example : CholeskyContract 2 [[4, 2], [2, 5]] [[2, 0], [1, 2]] := by
  refine ⟨rfl, ?_, ?_, ?_⟩
  · intro i j hi hj hij
    (interval_cases i <;> interval_cases j); simp_all [get2]
  · intro i hi
    interval_cases i <;> norm_num [get2]
  · intro i j hi hj
    interval_cases i <;> interval_cases j <;> norm_num [get2, List.range_succ]

example : LUContract 2 [[4, 2], [2, 5]] [[1, 0], [1 / 2, 1]] [[4, 2], [0, 4]] 1 1 := by
  refine ⟨rfl, rfl, ?_, ?_, ?_⟩
  · intro i j hi hj hij
    (interval_cases i <;> interval_cases j); simp_all [get2]
  · intro i j hi hj hij
    (interval_cases i <;> interval_cases j); simp_all [get2]
  · intro i j
    fin_cases i <;> fin_cases j <;> norm_num [get2, List.range_succ]

/-- a partially regularized list (2 regularized parameters, then 1 unregularized, then 1 regularized):
    index list, block-diagonal `H`, reduced matrices and the regularization term. -/
example :
    let objs : List (LinObj Int) :=
      [{ params := 2, reg := some [[2, -1], [-1, 2]] }, { params := 1, reg := none },
       { params := 1, reg := some [[3]] }]
    let F : List (List Int) := [[5, 1, 0, 0], [1, 5, 1, 0], [0, 1, 4, 1], [0, 0, 1, 6]]
    noRegularizationIndexList objs = [2]
    ∧ hasRegularization objs = true ∧ allHaveRegularization objs = false
    ∧ regularizationMatrix objs = [[2, -1, 0, 0], [-1, 2, 0, 0], [0, 0, 0, 0], [0, 0, 0, 3]]
    ∧ curvatureRegMatrixReduced F objs = [[7, 0, 0], [0, 7, 0], [0, 0, 9]]
    ∧ regularizationMatrixReduced objs = [[2, -1, 0], [-1, 2, 0], [0, 0, 3]]
    ∧ reconstructionReduced [1, 2, 10, 3] objs = [1, 2, 3]
    ∧ regularizationTerm [1, 2, 10, 3] objs = 33 := by
  decide

end C08
