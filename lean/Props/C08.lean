/-
Props/C08.lean — property C08 (work in progress: theorems are being added).
-/
import Model.Fit

open Model

namespace C08

/-- figure of merit without an inversion is the log likelihood (placeholder while the file is built up) -/
theorem c_figure_of_merit_no_inversion {α : Type} [Add α] [Sub α] [Mul α] [Div α] [Neg α] [OfNat α 0]
    [OfNat α 1] [OfNat α 2] [BEq α] (log : α → α) (twoPi : α) (f : Impl.Fit.FitInput α) :
    Impl.Fit.fitFigureOfMerit log twoPi f none = Impl.Fit.fitLogLikelihood log twoPi f := rfl

end C08
