/-
Props/C09.lean — property C09: over-sampling partitions pixels uniformly and bins by exact per-pixel
means; the decorator returns exactly this binned result; the iterative scheme returns, per pixel, the
binned value at the first sub-size of the schedule agreeing with the previous level, else the last.

All theorems are about the `Impl` layer of Model/OverSample.lean (the loop transliterations the
driver executes against the Python) and quantify over every mask, geometry (anisotropic pixel
scales, any origin), per-pixel sub-size map, user function `f : α × α → α`, thresholds and schedule,
over any field `α` (ordered where the agreement rule is involved) — no bound on any size.
-/
import Model.OverSample
import Proofs.OverSampleBridge

open Model

namespace C09

section field
variable {α : Type} [Field α]

/-! ## (a) the over-sampled grid -/

/-- (a) `grid_2d_slim_over_sampled_via_mask_from` returns, slim pixel by slim pixel (row-major order
    of the unmasked pixels, index `k`), then `y₁` (top to bottom), then `x₁` (left to right), the
    `sub_k²` points `(P_y + s_y/2 − (y₁+½)·s_y/sub_k,  P_x − s_x/2 + (x₁+½)·s_x/sub_k)` where `P` is
    the pixel's centre (`Spec.overSampledGrid` is literally this comprehension). -/
theorem a_grid_eq_partition_centres (m : Mask) (sub : List Nat) (g : Geom α) :
    Impl.overSampledGrid m sub g
      = ((Spec.unmaskedPixels m).zipIdx).flatMap fun pk =>
          (pixels (sub.getD pk.2 0) (sub.getD pk.2 0)).map fun q =>
            ((Spec.pixelCentre m.h m.w g pk.1).1 + g.sy / 2
                - ((q.1 : α) + 1 / 2) * g.sy / (sub.getD pk.2 0 : α),
             (Spec.pixelCentre m.h m.w g pk.1).2 - g.sx / 2
                + ((q.2 : α) + 1 / 2) * g.sx / (sub.getD pk.2 0 : α)) := by
  rw [overSampledGrid_eq]; rfl

/-- (a) the pixel centre used above is the scaled coordinate of the pixel:
    `(o_y + ((H−1)/2 − y)·s_y,  o_x + (x − (W−1)/2)·s_x)` (non-zero pixel scales). -/
theorem a_pixel_centre (h w : Nat) (g : Geom α) (p : Nat × Nat) (hsy : g.sy ≠ 0) (hsx : g.sx ≠ 0) :
    Spec.pixelCentre h w g p
      = (g.oy + (((h : α) - 1) / 2 - (p.1 : α)) * g.sy, g.ox + ((p.2 : α) - ((w : α) - 1) / 2) * g.sx) := by
  unfold Spec.pixelCentre
  ext <;> (simp only; field_simp; ring)

/-- (a) these points are the centres of a uniform `s×s` partition of the pixel's square
    `[P_y − s_y/2, P_y + s_y/2] × [P_x − s_x/2, P_x + s_x/2]`: with row edges
    `top i = P_y + s_y/2 − i·s_y/s` and column edges `left i = P_x − s_x/2 + i·s_x/s` (equally
    spaced, `top 0` / `left 0` the pixel's top / left edge, `top s` / `left s` its bottom / right
    edge), point `(y₁,x₁)` is the midpoint of cell `[top (y₁+1), top y₁] × [left x₁, left (x₁+1)]`. -/
theorem a_subcentre_is_cell_midpoint [CharZero α] (g : Geom α) (P : α × α) (s : Nat) (hs : s ≠ 0)
    (q : Nat × Nat) :
    let top : Nat → α := fun i => P.1 + g.sy / 2 - (i : α) * g.sy / (s : α)
    let left : Nat → α := fun i => P.2 - g.sx / 2 + (i : α) * g.sx / (s : α)
    Spec.subCentre g P s q = ((top q.1 + top (q.1 + 1)) / 2, (left q.2 + left (q.2 + 1)) / 2)
    ∧ top 0 = P.1 + g.sy / 2 ∧ top s = P.1 - g.sy / 2
    ∧ left 0 = P.2 - g.sx / 2 ∧ left s = P.2 + g.sx / 2 := by
  have hs' : (s : α) ≠ 0 := Nat.cast_ne_zero.mpr hs
  refine ⟨?_, ?_, ?_, ?_, ?_⟩
  · unfold Spec.subCentre
    ext <;> (simp only; push_cast; field_simp; ring)
  · simp
  · simp only; field_simp; ring
  · simp
  · simp only; field_simp; ring

/-- (a) the grid holds `sub_k²` points per unmasked pixel: its length is `Σ_k sub_k²`, and pixel
    `k`'s points start at offset `Σ_{j<k} sub_j²`. -/
theorem a_grid_length_and_blocks (m : Mask) (sub : List Nat) (g : Geom α) :
    (Impl.overSampledGrid m sub g).length = Spec.offset sub (Spec.unmaskedPixels m).length
    ∧ ∀ k j, k < (Spec.unmaskedPixels m).length → j < sub.getD k 0 * sub.getD k 0 →
        (Impl.overSampledGrid m sub g)[Spec.offset sub k + j]?
          = (Spec.subCentres g
              (Spec.pixelCentre m.h m.w g ((Spec.unmaskedPixels m).getD k (0, 0)))
              (sub.getD k 0))[j]? := by
  rw [overSampledGrid_eq]
  unfold Spec.overSampledGrid Spec.slimPixels
  rw [zipIdx_flatMap_range _ (0, 0), offset_eq_offs]
  have hB : ∀ k, (Spec.subCentres g
      (Spec.pixelCentre m.h m.w g ((Spec.unmaskedPixels m).getD k (0, 0), 0 + k).1)
      (sub.getD ((Spec.unmaskedPixels m).getD k (0, 0), 0 + k).2 0)).length
        = (fun j => sub.getD j 0 * sub.getD j 0) k := by
    intro k; simp [subCentres_length]
  refine ⟨flatMap_range_length _ _ hB _, ?_⟩
  intro k j hk hj
  rw [flatMap_range_get _ _ hB _ k j hk hj]
  simp

/-! ## (b) the sub-pixel → pixel index table -/

/-- (b) `slim_for_sub_slim` is each slim index `k` repeated `sub_k²` times, in order. -/
theorem b_slimForSubSlim (m : Mask) (sub : List Nat) :
    Impl.slimForSubSlim m sub
      = (List.range (Spec.unmaskedPixels m).length).flatMap fun k =>
          List.replicate (sub.getD k 0 * sub.getD k 0) k :=
  slimForSubSlim_eq m sub

/-- (b) entry `Σ_{j<k} sub_j² + j` (`j < sub_k²`) of `slim_for_sub_slim` is `k` — the same blocks
    as the grid's — and its total length is `Σ sub²`. -/
theorem b_slimForSubSlim_blocks (m : Mask) (sub : List Nat) :
    (Impl.slimForSubSlim m sub).length = Spec.offset sub (Spec.unmaskedPixels m).length
    ∧ ∀ k j, k < (Spec.unmaskedPixels m).length → j < sub.getD k 0 * sub.getD k 0 →
        (Impl.slimForSubSlim m sub)[Spec.offset sub k + j]? = some k := by
  rw [slimForSubSlim_eq, Spec.slimForSubSlim, offset_eq_offs]
  have hB : ∀ k, (List.replicate (sub.getD k 0 * sub.getD k 0) k).length
      = (fun j => sub.getD j 0 * sub.getD j 0) k := by intro k; simp
  refine ⟨flatMap_range_length _ _ hB _, ?_⟩
  intro k j hk hj
  rw [flatMap_range_get _ _ hB _ k j hk hj, List.getElem?_eq_getElem (by simpa using hj)]
  simp

/-- (b') `sub_mask_native_for_sub_mask_slim`: sub-pixel `(y₁,x₁)` of pixel `(y,x)` has native
    sub-index `(y·sub + y₁, x·sub + x₁)`, same ordering. -/
theorem b_subNativeForSubSlim (m : Mask) (sub : List Nat) :
    Impl.subNativeForSubSlim m sub
      = ((Spec.unmaskedPixels m).zipIdx).flatMap fun pk =>
          (pixels (sub.getD pk.2 0) (sub.getD pk.2 0)).map fun q =>
            (pk.1.1 * sub.getD pk.2 0 + q.1, pk.1.2 * sub.getD pk.2 0 + q.2) :=
  subNativeForSubSlim_eq m sub

/-! ## (c) binning -/

/-- (c) `binned_array_2d_from`: entry `k` is the arithmetic mean of pixel `k`'s own `sub_k²`
    sub-values (the block starting at `Σ_{j<k} sub_j²`). -/
theorem c_binned_is_mean (m : Mask) (sub : List Nat) (a : List α) :
    Impl.binned m sub a
      = (List.range (Spec.unmaskedPixels m).length).map fun k =>
          ((List.range (sub.getD k 0 * sub.getD k 0)).map fun j =>
              a.getD (Spec.offset sub k + j) 0).sum
            / ((sub.getD k 0 * sub.getD k 0 : Nat) : α) :=
  binned_eq_mean m sub a

/-- (c) for every user function `f`: evaluating on the over-sampled grid and binning
    (`array_via_func_from`) gives for pixel `k` the mean of `f` over that pixel's own `sub_k²`
    sub-centres. -/
theorem c_via_func_is_cell_mean (f : α × α → α) (m : Mask) (sub : List Nat) (g : Geom α) :
    Impl.arrayViaFunc f m sub g
      = ((Spec.unmaskedPixels m).zipIdx).map fun pk =>
          ((Spec.subCentres g (Spec.pixelCentre m.h m.w g pk.1) (sub.getD pk.2 0)).map f).sum
            / ((sub.getD pk.2 0 * sub.getD pk.2 0 : Nat) : α) := by
  rw [arrayViaFunc_eq]
  unfold Spec.cellMean Spec.slimPixels
  simp only [foldl_add_eq_sum]

/-- (c) constants are reproduced exactly (sub-sizes ≥ 1, characteristic 0). -/
theorem c_constant_reproduced [CharZero α] (c : α) (m : Mask) (sub : List Nat) (g : Geom α)
    (hsub : ∀ k, k < (Spec.unmaskedPixels m).length → sub.getD k 0 ≠ 0) :
    Impl.arrayViaFunc (fun _ => c) m sub g = List.replicate (Spec.unmaskedPixels m).length c := by
  rw [arrayViaFunc_eq, Spec.slimPixels, zipIdx_map_range _ (0, 0)]
  apply List.ext_getElem
  · simp
  · intro k h1 h2
    have hk : k < (Spec.unmaskedPixels m).length := by simpa using h1
    simp only [List.getElem_map, List.getElem_range, List.getElem_replicate, Nat.zero_add]
    exact cellMean_const g _ _ c (hsub k hk)

/-- (c) every affine function of position `c₀ + c₁·y + c₂·x` is reproduced exactly at the pixel
    centres: binning its over-sampled evaluation equals evaluating it on the pixel-centre grid
    (`mask.derive_grid.unmasked`), for every mask, geometry and sub-size map with entries ≥ 1. -/
theorem c_affine_reproduced [CharZero α] (c0 c1 c2 : α) (m : Mask) (sub : List Nat) (g : Geom α)
    (hsub : ∀ k, k < (Spec.unmaskedPixels m).length → sub.getD k 0 ≠ 0) :
    Impl.arrayViaFunc (fun p => c0 + c1 * p.1 + c2 * p.2) m sub g
      = (Impl.unmaskedGrid m g).map fun p => c0 + c1 * p.1 + c2 * p.2 := by
  rw [arrayViaFunc_eq, unmaskedGrid_eq, List.map_map, Spec.slimPixels,
    map_eq_zipIdx_map (Spec.unmaskedPixels m) 0, zipIdx_map_range _ (0, 0), zipIdx_map_range _ (0, 0)]
  apply List.map_congr_left
  intro k hk
  have hk' : k < (Spec.unmaskedPixels m).length := by simpa using hk
  simp only [Nat.zero_add, Function.comp]
  exact cellMean_affine g _ _ c0 c1 c2 (hsub k hk')

/-- (c) in particular the mean of a pixel's sub-centres is the pixel centre. -/
theorem c_mean_of_subcentres_is_centre [CharZero α] (g : Geom α) (P : α × α) (s : Nat) (hs : s ≠ 0) :
    ((Spec.subCentres g P s).map Prod.fst).sum / ((s * s : Nat) : α) = P.1
    ∧ ((Spec.subCentres g P s).map Prod.snd).sum / ((s * s : Nat) : α) = P.2 := by
  have h1 := cellMean_affine g P s 0 1 0 hs
  have h2 := cellMean_affine g P s 0 0 1 hs
  unfold Spec.cellMean at h1 h2
  rw [foldl_add_eq_sum] at h1 h2
  constructor
  · simpa using h1
  · simpa using h2

/-- (c) `sub_pixel_areas` has one entry per sub-pixel and sums to the unmasked area
    `N · s_y · s_x` (sub-size map with one entry ≥ 1 per unmasked pixel). -/
theorem c_areas_sum [CharZero α] (m : Mask) (sub : List Nat) (g : Geom α)
    (hlen : sub.length = (Spec.unmaskedPixels m).length) (hsub : ∀ s ∈ sub, s ≠ 0) :
    (Impl.subPixelAreas sub g).sum = ((Spec.unmaskedPixels m).length : α) * (g.sy * g.sx)
    ∧ (Impl.subPixelAreas sub g).length = (Impl.overSampledGrid m sub g).length := by
  constructor
  · rw [subPixelAreas_sum sub g hsub, hlen]
  · rw [(a_grid_length_and_blocks m sub g).1, subPixelAreas_loop, ← hlen, offset_eq_offs]
    exact flatMap_range_length _ _ (by intro k; simp) _

end field

/-! ## (d) the decorator -/
section ordered
variable {α : Type} [Field α] [LinearOrder α] [IsStrictOrderedRing α]

/-- (a) ordering inside a pixel: with positive pixel scales, going from `y₁` to `y₁+1` moves the point
    down (smaller y) and from `x₁` to `x₁+1` moves it right (larger x) — "top-to-bottom, then
    left-to-right". -/
theorem a_order_top_to_bottom_left_to_right (g : Geom α) (P : α × α) (s : Nat) (hs : s ≠ 0)
    (hsy : 0 < g.sy) (hsx : 0 < g.sx) (q : Nat × Nat) :
    (Spec.subCentre g P s (q.1 + 1, q.2)).1 < (Spec.subCentre g P s q).1
    ∧ (Spec.subCentre g P s q).2 < (Spec.subCentre g P s (q.1, q.2 + 1)).2 := by
  have hs' : (0 : α) < (s : α) := Nat.cast_pos.mpr (Nat.pos_of_ne_zero hs)
  have dy : 0 < g.sy / (s : α) := div_pos hsy hs'
  have dx : 0 < g.sx / (s : α) := div_pos hsx hs'
  unfold Spec.subCentre
  simp only [mul_div_assoc]
  push_cast
  constructor <;> nlinarith

omit [IsStrictOrderedRing α] in
/-- (d) the decorator on a `Grid2D` built from the mask (`Grid2D.from_mask`, whose values are the
    pixel centres) with uniform over-sampling — an int or a per-pixel array with entries ≥ 1 — returns,
    for every user function, exactly the binned result `binned(f(over_sampled_grid))`; this includes
    the branch where all sub-sizes are 1 and the code evaluates `f` on the grid itself. -/
theorem d_decorated_from_mask (f : α × α → α) (m : Mask) (g : Geom α) (s : Impl.SubSpec)
    (hlen : (s.expand (Spec.unmaskedPixels m).length).length = (Spec.unmaskedPixels m).length)
    (hpos : ∀ x ∈ s.expand (Spec.unmaskedPixels m).length, 1 ≤ x) :
    Impl.decorated f m g (Impl.unmaskedGrid m g) (.uniform s)
      = Impl.arrayViaFunc f m (s.expand (Spec.unmaskedPixels m).length) g := by
  unfold Impl.decorated
  rw [totalPixels_eq]
  cases s with
  | int s =>
    simp only [Impl.performOverSampling, Impl.SubSpec.expand]
    by_cases h1 : s = 1
    · subst h1
      simp only [beq_self_eq_true, Bool.not_true, Bool.false_eq_true, if_false]
      rw [arrayViaFunc_all_one]
      intro k hk
      simp [List.getD_eq_getElem?_getD, hk]
    · simp [h1]
  | arr l =>
    simp only [Impl.performOverSampling, Impl.SubSpec.expand] at hlen hpos ⊢
    by_cases h1 : l.foldl (· + ·) 0 = (Spec.unmaskedPixels m).length
    · simp only [h1, beq_self_eq_true, Bool.not_true, Bool.false_eq_true, if_false]
      rw [arrayViaFunc_all_one]
      intro k hk
      have hall := (sum_eq_length_iff_all_one l hpos).mp (by rw [h1, hlen])
      have hk' : k < l.length := by omega
      rw [List.getD_eq_getElem?_getD, List.getElem?_eq_getElem hk']
      exact hall _ (List.getElem_mem hk')
    · simp [h1]

omit [IsStrictOrderedRing α] in
/-- (d) for a `Grid2D` with arbitrary own values `gv` (at least one unmasked pixel): the code
    evaluates `f` on the grid's own values exactly when every sub-size is 1, and otherwise returns
    the binned over-sampled evaluation (which depends on the mask geometry only). -/
theorem d_decorated_dispatch (f : α × α → α) (m : Mask) (g : Geom α) (gv : List (α × α))
    (s : Impl.SubSpec) (hN : 0 < (Spec.unmaskedPixels m).length)
    (hlen : (s.expand (Spec.unmaskedPixels m).length).length = (Spec.unmaskedPixels m).length)
    (hpos : ∀ x ∈ s.expand (Spec.unmaskedPixels m).length, 1 ≤ x) :
    Impl.decorated f m g gv (.uniform s)
      = if ∀ x ∈ s.expand (Spec.unmaskedPixels m).length, x = 1 then gv.map f
        else Impl.arrayViaFunc f m (s.expand (Spec.unmaskedPixels m).length) g := by
  unfold Impl.decorated
  rw [totalPixels_eq]
  cases s with
  | int s =>
    have hperf : Impl.performOverSampling (α := α) (Spec.unmaskedPixels m).length
        (.uniform (.int s)) = !(s == 1) := rfl
    rw [hperf]
    by_cases h1 : s = 1
    · subst h1
      have hall : ∀ x ∈ (Impl.SubSpec.int 1).expand (Spec.unmaskedPixels m).length, x = 1 := by
        intro x hx; exact (List.mem_replicate.mp hx).2
      rw [if_pos hall, if_neg (by simp)]
    · have hb : (!(s == 1)) = true := by simp [h1]
      have hnot : ¬ ∀ x ∈ (Impl.SubSpec.int s).expand (Spec.unmaskedPixels m).length, x = 1 := by
        intro h
        exact h1 (h s (List.mem_replicate.mpr ⟨by omega, rfl⟩))
      rw [if_pos hb, if_neg hnot]
  | arr l =>
    have hperf : Impl.performOverSampling (α := α) (Spec.unmaskedPixels m).length
        (.uniform (.arr l)) = !(l.foldl (· + ·) 0 == (Spec.unmaskedPixels m).length) := rfl
    rw [hperf]
    simp only [Impl.SubSpec.expand] at hlen hpos
    have hiff := sum_eq_length_iff_all_one l hpos
    rw [hlen] at hiff
    by_cases h1 : l.foldl (· + ·) 0 = (Spec.unmaskedPixels m).length
    · have hall : ∀ x ∈ (Impl.SubSpec.arr l).expand (Spec.unmaskedPixels m).length, x = 1 :=
        hiff.mp h1
      rw [if_pos hall, if_neg (by simp [h1])]
    · have hnot : ¬ ∀ x ∈ (Impl.SubSpec.arr l).expand (Spec.unmaskedPixels m).length, x = 1 :=
        fun h => h1 (hiff.mpr h)
      rw [if_neg hnot, if_pos (by simp [h1])]

omit [IsStrictOrderedRing α] in
/-- (d) with `OverSamplingIterate` the decorator always hands over to the iterative scheme. -/
theorem d_decorated_iterate (f : α × α → α) (m : Mask) (g : Geom α) (gv : List (α × α))
    (fr rel : Option α) (steps : List Nat) :
    Impl.decorated f m g gv (.iterate fr rel steps) = Impl.iterateViaFunc f m g fr rel steps := by
  simp [Impl.decorated, Impl.performOverSampling]

/-! ## (e) the iterative scheme -/

omit [IsStrictOrderedRing α] in
/-- (e) `threshold_mask_via_arrays_jit_from`, entry by entry: the new threshold mask is `True` exactly
    where the pixel was already masked at this level or its previous (`lower`) and current (`higher`)
    values agree; its shape is the frame's. -/
theorem e_threshold_mask_pointwise (fr rel : Option α) (h w : Nat) (higher lower : List α)
    (hm : List Bool) :
    (Impl.thresholdMask fr rel h w higher lower hm).length = h * w
    ∧ ∀ j, j < h * w →
        (Impl.thresholdMask fr rel h w higher lower hm)[j]?
          = some (hm.getD j true || Spec.converged fr rel (lower.getD j 0) (higher.getD j 0)) :=
  ⟨thresholdMask_length fr rel h w higher lower hm,
   fun j hj => thresholdMask_get fr rel h w higher lower hm j hj⟩

omit [LinearOrder α] [IsStrictOrderedRing α] in
/-- (e) `iterated_array_jit_from`, entry by entry: a pixel takes the current level's value exactly
    when it is `True` in the new threshold mask and was `False` in the previous one (it has just
    converged); every other entry is left as it was. -/
theorem e_iterated_array_pointwise (h w : Nat) (iter : List α) (tmH tmL : List Bool)
    (higher : List α) (hl : iter.length = h * w) (j : Nat) (hj : j < h * w) :
    (Impl.iteratedArray h w iter tmH tmL higher)[j]?
      = some (if tmH.getD j true && !tmL.getD j true then higher.getD j 0 else iter.getD j 0) :=
  iteratedArray_get h w iter tmH tmL higher hl j hj

omit [IsStrictOrderedRing α] in
/-- (e) **array-level loop, any table.**  Let `v ℓ i` be any table of values (level `ℓ`, flat pixel
    index `i`), and let the level array under a mask be the table with masked entries zeroed.  If the
    level-0 values of the unmasked pixels are not all zero, the loop of
    `OverSamplerIterate.array_via_func_from` (threshold masks shrinking level by level, early
    `return` when a threshold mask is all `True`, final `iterated_array + array_higher_sub`) returns
    at every in-frame index: 0 if masked, else `v ℓ* i` where `ℓ*` is the first level in `1 … n−1`
    whose value agrees (`Spec.converged`) with the previous level's, and `n` (the last sub-size) if
    there is none. -/
theorem e_table_loop (fr rel : Option α) (h w : Nat) (v : Nat → Nat → α) (bits : List Bool) (n : Nat)
    (hn : 1 ≤ n) (hnz : ¬ ∀ j, j < h * w → bits.getD j true = false → v 0 j = 0)
    (j : Nat) (hj : j < h * w) :
    (Impl.iterateNative fr rel h w bits (Impl.tableArray (h * w) v) n)[j]?
      = some (if bits.getD j true then 0
              else match (List.range' 1 (n - 1)).find?
                      (fun l => Spec.converged fr rel (v (l - 1) j) (v l j)) with
                   | some l => v l j
                   | none => v n j) := by
  rw [iterateNative_get fr rel h w v bits n add_zero zero_add hnz j hj,
    chosenFrom_eq_iterValue _ _ _ hn]
  rfl

omit [LinearOrder α] [IsStrictOrderedRing α] in
/-- (e) **a pixel's level value does not depend on the mask it is evaluated under**: the native
    array `array_at_sub_size_from(mask=bits, sub_size=steps[ℓ−1])` (and the sub-size-1 evaluation for
    `ℓ = 0`) is, for every mask `bits`, the table `ℓ, i ↦ levelValue(pixel i)` with masked entries
    zeroed; `levelValue` is `f` at the centre for `ℓ = 0` and the mean of `f` over the `steps[ℓ−1]²`
    sub-centres for `ℓ ≥ 1`. -/
theorem e_level_array_is_masked_table (f : α × α → α) (h w : Nat) (g : Geom α) (steps : List Nat)
    (l : Nat) (bits : List Bool) :
    Impl.levelArray f h w g steps l bits
      = Impl.tableArray (h * w)
          (fun l i => Spec.levelValue f g steps (Spec.pixelCentre h w g (i / w, i % w)) l) l bits :=
  levelArray_eq_tableArray f h w g steps l bits

omit [IsStrictOrderedRing α] in
/-- (e) **the iterative scheme, every user function.**  For every mask, geometry, function,
    thresholds and non-empty schedule `steps` (length `n`), if the sub-size-1 evaluation is not zero
    at every unmasked pixel centre: the returned slim array holds, for each unmasked pixel, the binned
    value at the first sub-size of the schedule (levels `1 … n−1`) whose agreement with the previous
    level meets the thresholds, otherwise the value at the last sub-size. -/
theorem e_iterate_first_agreeing_level (f : α × α → α) (m : Mask) (g : Geom α) (fr rel : Option α)
    (steps : List Nat) (hn : steps ≠ [])
    (hnz : ¬ ∀ p ∈ Spec.unmaskedPixels m, f (Spec.pixelCentre m.h m.w g p) = 0) :
    Impl.iterateViaFunc f m g fr rel steps
      = (Spec.unmaskedPixels m).map fun p =>
          let v : Nat → α := Spec.levelValue f g steps (Spec.pixelCentre m.h m.w g p)
          match (List.range' 1 (steps.length - 1)).find?
              (fun l => Spec.converged fr rel (v (l - 1)) (v l)) with
          | some l => v l
          | none => v steps.length :=
  iterateViaFunc_eq f m g fr rel steps hn hnz

omit [IsStrictOrderedRing α] in
/-- (e, separate clause) the early return: when the function is zero at every unmasked pixel
    centre the code returns the sub-size-1 array — all zeros — without looking at any sub-grid. -/
theorem e_early_return (f : α × α → α) (m : Mask) (g : Geom α) (fr rel : Option α)
    (steps : List Nat) (hz : ∀ p ∈ Spec.unmaskedPixels m, f (Spec.pixelCentre m.h m.w g p) = 0) :
    Impl.iterateViaFunc f m g fr rel steps = List.replicate (Spec.unmaskedPixels m).length 0 :=
  iterateViaFunc_all_zero f m g fr rel steps hz

/-- (e) **the agreement rule in the property's words.**  For a positive fractional-accuracy
    threshold `t` and an optional absolute tolerance: the previous value `lo` and the current value
    `hi` agree iff both are positive (the ratio is only defined for a positive previous value, and a
    non-positive current value never agrees), the ratio of the smaller to the larger is at least `t`,
    and, if the tolerance `r` is set, `|lo − hi| ≤ r`. -/
theorem e_agreement_rule (t : α) (ht : 0 < t) (rel : Option α) (lo hi : α) :
    Spec.converged (some t) rel lo hi = true
      ↔ (0 < lo ∧ 0 < hi ∧ t ≤ min lo hi / max lo hi) ∧ (∀ r, rel = some r → |lo - hi| ≤ r) :=
  converged_iff t ht rel lo hi

end ordered

/-! ## witnesses and non-vacuity (exact rationals, evaluated by the kernel) -/

/-- (e, witness for known finding D15) the early return departs from the stopping rule: on the 1×1
    mask with unit pixel at the origin, `f(y,x) = y²` is zero at the pixel centre, so the code returns
    `[0]`, whereas the value at the last (only) sub-size 2 of the schedule is `1/16`. -/
theorem e_early_return_departs_from_rule_witness :
    let m : Mask := ⟨1, 1, [false]⟩
    let g : Geom Rat := ⟨1, 1, 0, 0⟩
    let f : Rat × Rat → Rat := fun p => p.1 * p.1
    Impl.iterateViaFunc f m g (some (1 / 2)) none [2] = [0]
    ∧ Spec.levelValue f g [2] (Spec.pixelCentre 1 1 g (0, 0)) 1 = 1 / 16 := by
  decide +kernel

/-- non-vacuity of (a)–(d): a 2×3 mask with a masked pixel between unmasked ones, anisotropic scales,
    off-origin, per-pixel sub-sizes 1, 2, 3, 2. -/
example :
    let m : Mask := ⟨2, 3, [false, true, false, true, false, false]⟩
    let g : Geom Rat := ⟨1 / 2, 2, 1 / 4, -1⟩
    let sub := [1, 2, 3, 2]
    (Impl.overSampledGrid m sub g).take 5
        = [(1 / 2, -3), (5 / 8, 1 / 2), (5 / 8, 3 / 2), (3 / 8, 1 / 2), (3 / 8, 3 / 2)]
    ∧ Impl.slimForSubSlim m sub = [0, 1, 1, 1, 1, 2, 2, 2, 2, 2, 2, 2, 2, 2, 3, 3, 3, 3]
    ∧ Impl.binned m sub ((List.range 18).map fun i => (i : Rat)) = [0, 5 / 2, 9, 31 / 2]
    ∧ Impl.arrayViaFunc (fun p => 1 + 2 * p.1 - 3 * p.2) m sub g
        = (Impl.unmaskedGrid m g).map (fun p => 1 + 2 * p.1 - 3 * p.2)
    ∧ Impl.decorated (fun p => p.1 * p.2) m g (Impl.unmaskedGrid m g) (.uniform (.arr [1, 1, 1, 1]))
        = (Impl.unmaskedGrid m g).map (fun p => p.1 * p.2) := by
  decide +kernel

/-- non-vacuity of (e): hypotheses of `e_iterate_first_agreeing_level` hold (level 0 not all zero,
    non-empty schedule) and the three pixels stop at different levels of the schedule [2, 4, 8]:
    `f = 1/(1/16 + y² + x²)` on a 1×3 row with unit pixels; with threshold 0.97 the outer pixels
    agree at level 1 resp. 2 and the central pixel runs to the last level. -/
example :
    let m : Mask := ⟨1, 3, [false, false, false]⟩
    let g : Geom Rat := ⟨1, 1, 0, 1 / 2⟩
    let f : Rat × Rat → Rat := fun p => 1 / (1 / 16 + p.1 * p.1 + p.2 * p.2)
    let r := Impl.iterateViaFunc f m g (some (97 / 100)) none [2, 4, 8]
    ¬ (∀ p ∈ Spec.unmaskedPixels m, f (Spec.pixelCentre m.h m.w g p) = 0)
    ∧ r.length = 3
    ∧ r = (Spec.unmaskedPixels m).map fun p =>
          Spec.iterValue (Spec.converged (some (97 / 100)) none)
            (Spec.levelValue f g [2, 4, 8] (Spec.pixelCentre m.h m.w g p)) 3 := by
  decide +kernel

end C09
