/- Props/C09.lean — placeholder while the proofs are being written. -/
import Model.OverSample

open Model

namespace C09

theorem placeholder_expand_int (n s : Nat) : (Impl.SubSpec.int s).expand n = List.replicate n s := rfl

end C09
