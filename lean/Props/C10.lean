/-
Props/C10.lean — property C10: blurring, edge and border pixel sets match their definitions for
every mask.  All theorems quantify over every mask shape and every mask (holes, several
components, unmasked pixels on the outer row/column included) and every odd kernel shape; they are
stated about the `Impl` layer of Model/MaskSets.lean (loop transliterations of `mask_2d_util` /
`derive/*` WITH repair D6), which the driver executes against the Python on every run.
Conventions: `m.get y x = true` ⇔ pixel (y,x) is masked; pixel arguments are always constrained to
the frame (`y < m.h`, `x < m.w`) because the totalised `Mask.get` aliases rows beyond it.
-/
import Model.MaskSets
import Proofs.MaskSets
import Proofs.MaskSetsGeom

open Model

namespace C10

/-! ## (a) blurring mask -/

/-- (a1) for an odd kernel shape `blurring_from` returns a mask exactly when the kernel footprint
    of every unmasked pixel lies inside the array; otherwise it raises the "extends beyond the
    edge" error — never a result. -/
theorem blurring_defined_iff (m : Mask) {kh kw : Nat} (hkh : kh % 2 = 1) (hkw : kw % 2 = 1) :
    ((∃ bm, Impl.blurringFrom m kh kw = .ok bm) ↔
        ∀ p : Nat × Nat, p.1 < m.h → p.2 < m.w → m.get p.1 p.2 = false →
          Spec.footprintInside m.h m.w kh kw p)
    ∧ ((¬ ∃ bm, Impl.blurringFrom m kh kw = .ok bm) → Impl.blurringFrom m kh kw = .footprintOutside) := by
  have hodd : (kh % 2 == 0 || kw % 2 == 0) = false := by simp [hkh, hkw]
  have hsome := blurringBits_isSome_iff m hkh hkw
  cases hb : Impl.blurringBits m kh kw with
  | none =>
    rw [hb] at hsome
    have hres : Impl.blurringFrom m kh kw = .footprintOutside := by
      simp only [Impl.blurringFrom, hodd, hb, Bool.false_eq_true, if_false]
    rw [hres]
    refine ⟨⟨fun h => ?_, fun h => ?_⟩, fun _ => rfl⟩
    · obtain ⟨bm, h⟩ := h; cases h
    · exact absurd (hsome.mpr h) (by simp)
  | some b =>
    rw [hb] at hsome
    have hres : Impl.blurringFrom m kh kw = .ok { h := m.h, w := m.w, bits := b } := by
      simp only [Impl.blurringFrom, hodd, hb, Bool.false_eq_true, if_false]
    rw [hres]
    exact ⟨⟨fun _ => hsome.mp rfl, fun _ => ⟨_, rfl⟩⟩, fun h => absurd ⟨_, rfl⟩ h⟩

/-- (a2) the blurring mask has the frame's shape and pixel `q` is unmasked in it exactly when `q`
    is masked in the original mask and lies within the kernel footprint of at least one unmasked
    pixel. -/
theorem blurring_unmasks_exactly (m : Mask) {kh kw : Nat} (hkh : kh % 2 = 1) (hkw : kw % 2 = 1)
    {bm : Mask} (hbm : Impl.blurringFrom m kh kw = .ok bm) :
    bm.h = m.h ∧ bm.w = m.w ∧ bm.WF ∧
    ∀ qy qx, qy < m.h → qx < m.w →
      (bm.get qy qx = false ↔
        m.get qy qx = true ∧ ∃ p : Nat × Nat, p.1 < m.h ∧ p.2 < m.w ∧ m.get p.1 p.2 = false
          ∧ Spec.inFootprint kh kw p (qy, qx)) := by
  have hodd : (kh % 2 == 0 || kw % 2 == 0) = false := by simp [hkh, hkw]
  unfold Impl.blurringFrom at hbm
  simp only [hodd, Bool.false_eq_true, if_false] at hbm
  cases hb : Impl.blurringBits m kh kw with
  | none => rw [hb] at hbm; cases hbm
  | some b =>
    rw [hb] at hbm
    cases hbm
    obtain ⟨hlen, hget⟩ := blurringBits_spec m hkh hkw hb
    exact ⟨rfl, rfl, hlen, fun qy qx hqy hqx => hget qy qx hqy hqx⟩

/-- (a3) the public entry point rejects an even side before anything else. -/
theorem blurring_even_rejected (m : Mask) {kh kw : Nat} (h : kh % 2 = 0 ∨ kw % 2 = 0) :
    Impl.blurringFrom m kh kw = .evenKernel := by
  unfold Impl.blurringFrom
  rcases h with h | h <;> simp [h]

/-! ## (b) edge pixels -/

/-- (b1) `edge_slim` lists, in strictly ascending order, exactly the slim indices `k` whose pixel
    `native_for_slim[k]` has one of its eight neighbour positions masked or beyond the array; and
    `total_edge_pixels_from` is its length. -/
theorem edge_slim_spec (m : Mask) :
    (∀ k, k ∈ Impl.edgeSlim m ↔
      ∃ hk : k < (Impl.nativeForSlim m).length, Spec.isEdge m (Impl.nativeForSlim m)[k])
    ∧ (Impl.edgeSlim m).Pairwise (· < ·)
    ∧ Impl.totalEdgePixels m = (Impl.edgeSlim m).length := by
  refine ⟨fun k => ?_, edgeSlim_pairwise m, totalEdgePixels_eq m⟩
  rw [mem_edgeSlim]
  simp only [nativeForSlim_eq]
  constructor
  · rintro ⟨hk, he⟩
    have hmem := mem_unmaskedPixels.mp (List.getElem_mem hk)
    exact ⟨hk, (checkIfEdgePixel_iff m hmem.1 hmem.2.1).mp he⟩
  · rintro ⟨hk, he⟩
    have hmem := mem_unmaskedPixels.mp (List.getElem_mem hk)
    exact ⟨hk, (checkIfEdgePixel_iff m hmem.1 hmem.2.1).mpr he⟩

/-- (b2) the property's wording.  The edge set (native view) consists of unmasked in-array pixels;
    it contains every unmasked pixel that has a masked pixel among its eight in-array neighbours;
    it contains no pixel whose eight neighbours all exist and are unmasked. -/
theorem edge_contains_and_excludes (m : Mask) (p : Nat × Nat) :
    (p ∈ Impl.edgeNative m → p.1 < m.h ∧ p.2 < m.w ∧ m.get p.1 p.2 = false)
    ∧ (p.1 < m.h → p.2 < m.w → m.get p.1 p.2 = false →
        (∃ q : Nat × Nat, q.1 < m.h ∧ q.2 < m.w ∧ q ≠ p
          ∧ ((q.1 : Int) - p.1).natAbs ≤ 1 ∧ ((q.2 : Int) - p.2).natAbs ≤ 1 ∧ m.get q.1 q.2 = true) →
        p ∈ Impl.edgeNative m)
    ∧ (1 ≤ p.1 → p.1 + 1 < m.h → 1 ≤ p.2 → p.2 + 1 < m.w →
        (∀ q : Nat × Nat, ((q.1 : Int) - p.1).natAbs ≤ 1 → ((q.2 : Int) - p.2).natAbs ≤ 1 →
          m.get q.1 q.2 = false) →
        p ∉ Impl.edgeNative m) := by
  refine ⟨fun h => ?_, fun h1 h2 h3 h => ?_, fun h1 h2 h3 h4 hall hmem => ?_⟩
  · have := mem_edgeNative.mp h
    exact ⟨this.1, this.2.1, this.2.2.1⟩
  · obtain ⟨q, hq1, hq2, hne, hd1, hd2, hmq⟩ := h
    refine mem_edgeNative.mpr ⟨h1, h2, h3, (checkIfEdgePixel_iff m h1 h2).mpr ?_⟩
    refine ⟨(q.1 : Int) - p.1, (q.2 : Int) - p.2, by omega, by omega, by omega, by omega, ?_, Or.inr ?_⟩
    · by_cases h' : (q.1 : Int) - p.1 = 0
      · right
        intro h''
        apply hne
        have e1 : q.1 = p.1 := by omega
        have e2 : q.2 = p.2 := by omega
        exact Prod.ext e1 e2
      · exact Or.inl h'
    · have e1 : ((p.1 : Int) + ((q.1 : Int) - p.1)).toNat = q.1 := by omega
      have e2 : ((p.2 : Int) + ((q.2 : Int) - p.2)).toNat = q.2 := by omega
      simp only [e1, e2]
      exact hmq
  · have hm := mem_edgeNative.mp hmem
    obtain ⟨dy, dx, hd1, hd2, hd3, hd4, _, hmz⟩ := (checkIfEdgePixel_iff m hm.1 hm.2.1).mp hm.2.2.2
    rcases hmz with hout | hmasked
    · exact hout (by omega)
    · have := hall (((p.1 : Int) + dy).toNat, ((p.2 : Int) + dx).toNat) (by simp only; omega)
        (by simp only; omega)
      simp only at this
      rw [this] at hmasked
      exact Bool.noConfusion hmasked

/-! ## (c) border pixels -/

/-- (c) the border set consists of exactly those edge pixels from which a straight walk to the
    array boundary in at least one of the four axis directions meets only masked pixels; the slim
    list is the (ascending) sub-list of `edge_slim` selected by that test. -/
theorem border_iff (m : Mask) :
    (∀ p, p ∈ Impl.borderNative m ↔ p ∈ Impl.edgeNative m ∧ Spec.clearWalk m p)
    ∧ (∀ k, k ∈ Impl.borderSlim m ↔
        k ∈ Impl.edgeSlim m ∧ ∃ hk : k < (Impl.nativeForSlim m).length,
          Spec.clearWalk m (Impl.nativeForSlim m)[k])
    ∧ (Impl.borderSlim m).Pairwise (· < ·)
    ∧ (Impl.borderSlim m).Sublist (Impl.edgeSlim m) := by
  refine ⟨fun p => ?_, fun k => ?_, borderSlim_pairwise m, ?_⟩
  · rw [mem_borderNative]
    constructor
    · rintro ⟨he, hb⟩
      have hm := mem_edgeNative.mp he
      exact ⟨he, (checkIfBorderPixelAt_iff m hm.1 hm.2.1 hm.2.2.1).mp hb⟩
    · rintro ⟨he, hb⟩
      have hm := mem_edgeNative.mp he
      exact ⟨he, (checkIfBorderPixelAt_iff m hm.1 hm.2.1 hm.2.2.1).mpr hb⟩
  · rw [mem_borderSlim]
    simp only [nativeForSlim_eq]
    constructor
    · rintro ⟨he, hk, hb⟩
      have hm := mem_unmaskedPixels.mp (List.getElem_mem hk)
      exact ⟨he, hk, (checkIfBorderPixelAt_iff m hm.1 hm.2.1 hm.2.2).mp hb⟩
    · rintro ⟨he, hk, hb⟩
      have hm := mem_unmaskedPixels.mp (List.getElem_mem hk)
      exact ⟨he, hk, (checkIfBorderPixelAt_iff m hm.1 hm.2.1 hm.2.2).mpr hb⟩
  · rw [borderSlim_eq]; exact List.filter_sublist

/-! ## (d) the slim-index, native-index, mask and grid views denote the same pixels, in slim order -/

/-- (d1) native views: `edge_native = native_for_slim[edge_slim]` (same for border), listed in
    ascending row-major order, i.e. slim order. -/
theorem native_views (m : Mask) :
    Impl.edgeNative m = (Impl.edgeSlim m).map (fun k => (Impl.nativeForSlim m).getD k (0, 0))
    ∧ Impl.borderNative m = (Impl.borderSlim m).map (fun k => (Impl.nativeForSlim m).getD k (0, 0))
    ∧ (Impl.edgeNative m).Pairwise (fun p q => p.1 * m.w + p.2 < q.1 * m.w + q.2)
    ∧ (Impl.borderNative m).Pairwise (fun p q => p.1 * m.w + p.2 < q.1 * m.w + q.2) := by
  refine ⟨rfl, rfl, ?_, ?_⟩
  · exact nativeOfSlim_pairwise m _ (edgeSlim_pairwise m) (fun k hk => (mem_edgeSlim.mp hk).1)
  · exact nativeOfSlim_pairwise m _ (borderSlim_pairwise m)
      (fun k hk => (mem_edgeSlim.mp (mem_borderSlim.mp hk).1).1)

/-- (d2) mask views: the edge (border) mask has the frame's shape and is unmasked exactly on the
    edge (border) pixels. -/
theorem mask_views (m : Mask) :
    (Impl.edgeMask m).WF ∧ (Impl.borderMask m).WF
    ∧ (∀ y x, y < m.h → x < m.w → ((Impl.edgeMask m).get y x = false ↔ (y, x) ∈ Impl.edgeNative m))
    ∧ (∀ y x, y < m.h → x < m.w →
        ((Impl.borderMask m).get y x = false ↔ (y, x) ∈ Impl.borderNative m)) := by
  refine ⟨maskFromNative_wf _ _ _, maskFromNative_wf _ _ _, fun y x hy hx => ?_, fun y x hy hx => ?_⟩
  · exact maskFromNative_get m.h m.w _ (fun p hp => (mem_edgeNative.mp hp).2.1) hy hx
  · exact maskFromNative_get m.h m.w _
      (fun p hp => (mem_edgeNative.mp (mem_borderNative.mp hp).1).2.1) hy hx

/-- (d3) grid views: entry `i` of the edge (border) grid is the pixel-centre coordinate (as
    `grid_2d_slim_via_mask_from` computes it) of entry `i` of the native view. -/
theorem grid_views [Add α] [Sub α] [Mul α] [Div α] [Neg α] [NatCast α] [OfNat α 2] [OfNat α 0]
    (m : Mask) (g : Impl.Geom α) :
    Impl.gridAt m g (Impl.edgeSlim m) = (Impl.edgeNative m).map (Impl.pixelCentre m.h m.w g)
    ∧ Impl.gridAt m g (Impl.borderSlim m) = (Impl.borderNative m).map (Impl.pixelCentre m.h m.w g)
    ∧ Impl.gridSlimViaMask m g = (Impl.nativeForSlim m).map (Impl.pixelCentre m.h m.w g) := by
  refine ⟨?_, ?_, ?_⟩
  · exact gridAt_eq m g _ (fun k hk => (mem_edgeSlim.mp hk).1)
  · exact gridAt_eq m g _ (fun k hk => (mem_edgeSlim.mp (mem_borderSlim.mp hk).1).1)
  · rw [gridSlimViaMask_eq, nativeForSlim_eq]

/-- (d3, closed form) over any field and non-zero pixel scales that coordinate is the pixel centre
    `(o_y + ((H−1)/2 − y)·s_y, o_x + (x − (W−1)/2)·s_x)` of C02.a, so e.g. the edge grid is the list of
    pixel centres of the edge pixels in slim order. -/
theorem grid_views_closed_form {F : Type} [Field F] (m : Mask) (g : Impl.Geom F)
    (hsy : g.sy ≠ 0) (hsx : g.sx ≠ 0) :
    Impl.gridAt m g (Impl.edgeSlim m)
      = (Impl.edgeNative m).map (fun p =>
          (g.oy + (((m.h - 1 : Nat) : F) / 2 - (p.1 : F)) * g.sy,
           g.ox + ((p.2 : F) - ((m.w - 1 : Nat) : F) / 2) * g.sx))
    ∧ Impl.gridAt m g (Impl.borderSlim m)
      = (Impl.borderNative m).map (fun p =>
          (g.oy + (((m.h - 1 : Nat) : F) / 2 - (p.1 : F)) * g.sy,
           g.ox + ((p.2 : F) - ((m.w - 1 : Nat) : F) / 2) * g.sx)) := by
  obtain ⟨h1, h2, _⟩ := grid_views m g
  rw [h1, h2]
  constructor <;>
    exact List.map_congr_left fun p _ => pixelCentre_closed_form m.h m.w g hsy hsx p

/-! ## defect D6 (repaired): the pre-repair loops violate (b) and (d) -/

/-- 2×2 unmasked block in the corner of a 4×4 mask: the pre-repair scan reports slim index 0, which
    denotes pixel (0,0), while the only pixel it tested was (1,1) (slim index 3); pixels (0,1) and
    (1,0), which have masked in-array neighbours, are missing.  The repaired loop reports all four. -/
theorem d6_pre_repair_witness :
    let m : Mask := ⟨4, 4, [false, false, true, true, false, false, true, true,
                            true, true, true, true, true, true, true, true]⟩
    Impl.edgeSlimAsIs m = [0]
    ∧ Impl.nativeForSlim m = [(0, 0), (0, 1), (1, 0), (1, 1)]
    ∧ Impl.edgeSlim m = [0, 1, 2, 3]
    ∧ Impl.borderSlim m = [0, 1, 2, 3] := by
  decide

/-! ## non-vacuity -/

/-- an annulus-like 5×5 mask touching the frame on the left: hypotheses of (a)–(d) are met with
    non-trivial sets (edge ≠ border ≠ all unmasked). -/
example :
    let m : Mask := ⟨5, 5, [true, true, true, true, true,
                            false, false, false, false, true,
                            true, false, true, false, true,
                            true, false, false, false, true,
                            true, true, true, true, true]⟩
    Impl.edgeSlim m = [0, 1, 2, 3, 4, 5, 6, 7, 8]
    ∧ Impl.borderSlim m = [0, 1, 2, 3, 4, 5, 6, 7, 8]
    ∧ Impl.edgeNative m = [(1, 0), (1, 1), (1, 2), (1, 3), (2, 1), (2, 3), (3, 1), (3, 2), (3, 3)] := by
  decide

example :
    let m : Mask := ⟨7, 7, [true, true, true, true, true, true, true,
                            true, false, false, false, false, false, true,
                            true, false, false, false, false, false, true,
                            true, false, false, true, false, false, true,
                            true, false, false, false, false, false, true,
                            true, false, false, false, false, false, true,
                            true, true, true, true, true, true, true]⟩
    Impl.edgeSlim m = List.range 24
    ∧ Impl.borderSlim m = [0, 1, 2, 3, 4, 5, 9, 10, 13, 14, 18, 19, 20, 21, 22, 23] := by
  decide

/-- the docstring example: 3×3 block, the centre (slim index 4) is not an edge pixel. -/
example :
    let m : Mask := ⟨5, 5, [true, true, true, true, true,
                            true, false, false, false, true,
                            true, false, false, false, true,
                            true, false, false, false, true,
                            true, true, true, true, true]⟩
    Impl.edgeSlim m = [0, 1, 2, 3, 5, 6, 7, 8] ∧ Impl.borderSlim m = [0, 1, 2, 3, 5, 6, 7, 8]
    ∧ (Impl.edgeMask m).bits = [true, true, true, true, true,
                                true, false, false, false, true,
                                true, false, true, false, true,
                                true, false, false, false, true,
                                true, true, true, true, true] := by
  decide

/-- a (3,5) kernel on a single unmasked pixel: defined, and unmasks the 3×5 window minus the pixel;
    a (5,3) kernel on a pixel one row from the top: the error. -/
example :
    let m : Mask := ⟨5, 7, (List.replicate 17 true) ++ [false] ++ (List.replicate 17 true)⟩
    (∃ bm, Impl.blurringFrom m 3 5 = .ok bm ∧
      bm.bits = [true, true, true, true, true, true, true,
                 true, false, false, false, false, false, true,
                 true, false, false, true, false, false, true,
                 true, false, false, false, false, false, true,
                 true, true, true, true, true, true, true])
    ∧ Impl.blurringFrom ⟨5, 5, (List.replicate 6 true) ++ [false] ++ (List.replicate 18 true)⟩ 5 3
        = .footprintOutside := by
  refine ⟨⟨_, rfl, ?_⟩, ?_⟩ <;> decide

end C10
