/-
Props/C10.lean — property C10 (work in progress: theorems are being added).
-/
import Model.MaskSets

open Model

namespace C10

/-- (d, first part) the native view of the edge set is `native_for_slim` gathered at the slim view. -/
theorem edge_native_is_gather (m : Mask) :
    Impl.edgeNative m = (Impl.edgeSlim m).map fun k => (Impl.nativeForSlim m).getD k (0, 0) := rfl

end C10
