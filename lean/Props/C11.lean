/-
Props/C11.lean — property C11: queries are pure — no input mutation, no order dependence, deterministic.

The theorems are about the `Impl` layer of Model/Purity.lean: the object-graph / cache machine
(`Impl.readF`, `Impl.step`, `Impl.run`) that the driver executes on the symbolic instance, and the
seeded-RNG machine (`Impl.simulate`, `Impl.rrun`).  They quantify over *every* effects table `E` with
the stated table properties, every contents / value type, every finite history and every fuel.

What the table properties are for the real code (`E.Pure`: no operation writes in place; `KeepSound E`:
a derived object inherits only cache keys invariant under the derivation — after the D8 repair it
inherits none) is NOT provable here (Python aliasing); it is recorded in
harness/props/c11_effects.json and validated by the correspondence run of `./check C11`.

Clauses (DESIGN §5 C11):
 a. value reported after any history = value on a freshly built equal object; independent of order and
    number of earlier reads, on the object, its parents and its descendants; contents never change
      reported_value_is_fresh_value, every_logged_value_is_fresh, history_read_equals_fresh_read,
      order_and_number_of_reads_irrelevant, pure_history_preserves_contents, read_changes_caches_only,
      repaired_table_reports_fresh_values, invariant_keys_may_be_kept,
      reads_outside_impure_operations_report_fresh_values, reads_outside_impure_operations_preserve_contents
      (the table of the tree as it is: pure except the operations of known finding D9b)
 b. with cache inheritance under a non-invariant derivation, or with an in-place write, the conclusion
    fails (the D8 / D9 / D7 behaviours)
      stale_cache_counterexample, inplace_cached_value_write_counterexample,
      inplace_contents_write_counterexample, constructor_write_counterexample
 c. seeded simulation is a function of the seed alone
      seeded_simulation_independent_of_prior_state, seeded_history_outputs_agree,
      unseeded_simulation_depends_on_state
-/
import Model.Purity
import Proofs.Purity

open Model Model.Purity

namespace C11

variable {κ γ τ σ ν : Type} [DecidableEq κ]

/-- (a) **the value a read reports after any history is the cache-free value on the freshly built equal
    object graph.**  `hist` is an arbitrary finite history from the empty heap (constructions, reads and
    query calls in any order and number, derivations); the read of `k` on `o` that follows reports `v`;
    then `v` is `Spec.value` — the body of `k` applied to the contents and to the cache-free values of its
    dependencies — evaluated on the graph produced by the *structural* steps of `hist` alone with every
    cache erased.  `o` is arbitrary: the object, one of its parents, or an object derived from it. -/
theorem reported_value_is_fresh_value (E : Effects κ γ τ σ ν) (hp : E.Pure) (hk : KeepSound E)
    (fuel fuel' : Nat) (hist : List (Impl.Step κ γ τ σ)) (o : Nat) (k : κ) (h' : Heap κ σ ν) (v : ν)
    (hr : Impl.step E fuel (Impl.run E fuel hist []).1 (.read o k) = (h', some v)) :
    ∃ m, Spec.value E m
        (Spec.erase (Impl.run E fuel' (hist.filter Impl.Step.isStructural) []).1) o k = some v := by
  obtain ⟨⟨_, hc⟩, _⟩ := run_inv E hp hk fuel hist [] (inv_nil E)
  simp only [Impl.step] at hr
  cases hrd : Impl.readF E fuel (Impl.run E fuel hist []).1 o k with
  | none => simp [hrd] at hr
  | some r =>
    rcases r with ⟨h1, w⟩
    simp only [hrd, Prod.mk.injEq, Option.some.injEq] at hr
    obtain ⟨_, _, m, hm⟩ := readF_sound E hp fuel _ o k h1 w hrd hc
    refine ⟨m, ?_⟩
    rw [← hr.2, ← hm]
    apply value_congr
    rw [erase_skel]
    exact (run_skel_filter E hp fuel fuel' hist [] [] rfl).symm

/-- (a) the same for every entry of the log of a history: whatever the `i`-th step, if it is a read of
    `k` on `o` and reports `v`, then `v` is the cache-free value on the graph built by the structural steps
    among the first `i` — every value reported anywhere in any history is the fresh-object value. -/
theorem every_logged_value_is_fresh (E : Effects κ γ τ σ ν) (hp : E.Pure) (hk : KeepSound E)
    (fuel : Nat) (hist : List (Impl.Step κ γ τ σ)) (i o : Nat) (k : κ) (v : ν)
    (hs : hist[i]? = some (.read o k))
    (hv : (Impl.run E fuel hist []).2[i]? = some (some v)) :
    ∃ m, Spec.value E m
        (Spec.erase (Impl.run E fuel ((hist.take i).filter Impl.Step.isStructural) []).1) o k = some v := by
  rw [run_log_get E fuel hist [] i _ hs] at hv
  have hv' := Option.some.inj hv
  exact reported_value_is_fresh_value E hp hk fuel fuel (hist.take i) o k
    (Impl.step E fuel (Impl.run E fuel (hist.take i) []).1 (.read o k)).1 v (by rw [← hv'])

/-- (a) operational form: **reading the same quantity once on the freshly built graph reports the same
    value** (for every fuel beyond some bound — the fresh read needs enough fuel for the dependency
    chain, the history read may have found part of it cached). This is exactly the comparison the
    correspondence harness makes against the real code. -/
theorem history_read_equals_fresh_read (E : Effects κ γ τ σ ν) (hp : E.Pure) (hk : KeepSound E)
    (fuel : Nat) (hist : List (Impl.Step κ γ τ σ)) (o : Nat) (k : κ) (h' : Heap κ σ ν) (v : ν)
    (hr : Impl.step E fuel (Impl.run E fuel hist []).1 (.read o k) = (h', some v)) :
    ∃ m, ∀ fuel', m ≤ fuel' →
      ∃ h'', Impl.step E fuel' (Impl.run E fuel' (hist.filter Impl.Step.isStructural) []).1 (.read o k)
        = (h'', some v) := by
  obtain ⟨m, hm⟩ := reported_value_is_fresh_value E hp hk fuel fuel hist o k h' v hr
  refine ⟨m, fun fuel' hle => ?_⟩
  obtain ⟨⟨_, hc⟩, _⟩ := run_inv E hp hk fuel' (hist.filter Impl.Step.isStructural) [] (inv_nil E)
  have hv : Spec.value E fuel' (Impl.run E fuel' (hist.filter Impl.Step.isStructural) []).1 o k = some v := by
    apply value_mono_le E _ hle
    rw [← hm]
    apply value_congr
    rw [erase_skel]
    have e1 := run_skel_filter E hp fuel' fuel (hist.filter Impl.Step.isStructural) [] [] rfl
    rw [run_filter_structural_idem] at e1
    exact e1
  obtain ⟨h'', hh⟩ := readF_complete E hp fuel' _ o k v hc hv
  exact ⟨h'', by simp [Impl.step, hh]⟩

/-- (a) **order and number of earlier accesses are irrelevant**: two histories that construct / derive the
    same objects in the same order but interleave arbitrary, different, repeated reads and query calls
    (on any objects) make every quantity of every object report the same value. -/
theorem order_and_number_of_reads_irrelevant (E : Effects κ γ τ σ ν) (hp : E.Pure) (hk : KeepSound E)
    (fuel₁ fuel₂ : Nat) (hist₁ hist₂ : List (Impl.Step κ γ τ σ))
    (same : hist₁.filter Impl.Step.isStructural = hist₂.filter Impl.Step.isStructural)
    (o : Nat) (k : κ) (h₁ h₂ : Heap κ σ ν) (v₁ v₂ : ν)
    (r₁ : Impl.step E fuel₁ (Impl.run E fuel₁ hist₁ []).1 (.read o k) = (h₁, some v₁))
    (r₂ : Impl.step E fuel₂ (Impl.run E fuel₂ hist₂ []).1 (.read o k) = (h₂, some v₂)) :
    v₁ = v₂ := by
  obtain ⟨m₁, e₁⟩ := reported_value_is_fresh_value E hp hk fuel₁ 0 hist₁ o k h₁ v₁ r₁
  obtain ⟨m₂, e₂⟩ := reported_value_is_fresh_value E hp hk fuel₂ 0 hist₂ o k h₂ v₂ r₂
  rw [same] at e₁
  exact value_det E _ e₁ e₂

/-- (a) **no operation of a pure history changes the contents or the parent links of an existing
    object** (model of: constructors, reads, queries and derivations never modify the arrays, masks or
    objects passed to them) — whatever the history, objects are only appended. -/
theorem pure_history_preserves_contents (E : Effects κ γ τ σ ν) (hp : E.Pure) (hk : KeepSound E)
    (fuel : Nat) (pre hist : List (Impl.Step κ γ τ σ)) (o : Nat) (ob : Obj κ σ ν)
    (ho : (Impl.run E fuel pre []).1[o]? = some ob) :
    ∃ ob', (Impl.run E fuel hist (Impl.run E fuel pre []).1).1[o]? = some ob'
      ∧ ob'.contents = ob.contents ∧ ob'.parents = ob.parents := by
  obtain ⟨hi, _⟩ := run_inv E hp hk fuel pre [] (inv_nil E)
  obtain ⟨_, t, e⟩ := run_inv E hp hk fuel hist _ hi
  have h1 : (Skel (Impl.run E fuel hist (Impl.run E fuel pre []).1).1)[o]? = some (ob.contents, ob.parents) := by
    rw [e]
    have hlt : o < (Skel (Impl.run E fuel pre []).1).length := by
      rcases List.getElem?_eq_some_iff.mp ho with ⟨hl, _⟩
      simpa [Skel] using hl
    rw [List.getElem?_append_left hlt]
    simp [Skel, ho]
  simp only [Skel, List.getElem?_map, Option.map_eq_some_iff] at h1
  obtain ⟨ob', h2, h3⟩ := h1
  exact ⟨ob', h2, (Prod.mk.inj h3).1, (Prod.mk.inj h3).2⟩

/-- (a) a single read / query on a pure table changes caches only: contents and parent links of every
    object are exactly what they were (`Skel` = list of (contents, parents)). -/
theorem read_changes_caches_only (E : Effects κ γ τ σ ν) (hp : E.Pure) (fuel : Nat)
    (h : Heap κ σ ν) (o : Nat) (k : κ) :
    Skel (Impl.step E fuel h (.read o k)).1 = Skel h :=
  step_read_skel E hp fuel h o k

/-- (a) the table of the repaired tree — pure, and derivations clear the cache (`keeps = false`
    everywhere, `AbstractNDArray.__copy__` after D8) — satisfies the hypotheses, so every read reports
    the fresh value. -/
theorem repaired_table_reports_fresh_values (E : Effects κ γ τ σ ν) (hp : E.Pure)
    (hclear : ∀ g k, E.keeps g k = false)
    (fuel : Nat) (hist : List (Impl.Step κ γ τ σ)) (o : Nat) (k : κ) (h' : Heap κ σ ν) (v : ν)
    (hr : Impl.step E fuel (Impl.run E fuel hist []).1 (.read o k) = (h', some v)) :
    ∃ m, Spec.value E m
        (Spec.erase (Impl.run E fuel (hist.filter Impl.Step.isStructural) []).1) o k = some v :=
  reported_value_is_fresh_value E hp (keepSound_of_no_keeps E hclear) fuel fuel hist o k h' v hr

omit [DecidableEq κ] in
/-- (a) a derivation may keep a cache key that reads nothing else and whose body is invariant under the
    derivation (`copy()` keeps everything; `Mask2D.circular_radius` survives a copy): such a table is
    keep-sound. -/
theorem invariant_keys_may_be_kept (E : Effects κ γ τ σ ν)
    (hinv : ∀ g k, E.keeps g k = true → E.deps k = [] ∧ ∀ c, E.compute k (E.apply g c) [] = E.compute k c []) :
    KeepSound E := by
  intro g k hkeep h o ob _ ho n v hv
  obtain ⟨hd, hc⟩ := hinv g k hkeep
  refine ⟨1, ?_⟩
  cases n with
  | zero => simp [Spec.value] at hv
  | succ n =>
    rw [Spec.value] at hv
    simp only [ho, hd, Spec.depVals, Option.some.injEq] at hv
    rw [Spec.value]
    have hlen : (h ++ [Obj.mk (E.apply g ob.contents) ([] : List (κ × ν)) ob.parents])[h.length]?
        = some (Obj.mk (E.apply g ob.contents) [] ob.parents) := by
      simp
    simp only [hlen, hd, Spec.depVals, Option.some.injEq]
    rw [hc, hv]

/-- (a) **the table of the tree as it is**: pure except for a set of operations (known finding D9b:
    `MapperValued.values_masked` and what is built on it).  If `S` is a set of keys that write nothing in
    place and is closed under "reads" (`E.CleanOn S`), constructors write nothing, and the history only
    reads keys of `S` (derivations and constructions are unrestricted), then the read of a key of `S`
    reports the fresh-object value — the impure operations elsewhere in the table are irrelevant. -/
theorem reads_outside_impure_operations_report_fresh_values (E : Effects κ γ τ σ ν) (S : κ → Prop)
    (hS : E.CleanOn S) (hctor : ∀ t, E.ctorWrites t = []) (hk : KeepSound E)
    (fuel : Nat) (hist : List (Impl.Step κ γ τ σ)) (hin : ReadsIn S hist)
    (o : Nat) (k : κ) (hkS : S k) (h' : Heap κ σ ν) (v : ν)
    (hr : Impl.step E fuel (Impl.run E fuel hist []).1 (.read o k) = (h', some v)) :
    ∃ m, Spec.value E m
        (Spec.erase (Impl.run E fuel (hist.filter Impl.Step.isStructural) []).1) o k = some v := by
  rw [run_purify E S hS hctor fuel hist [] hin, step_purify E S hS hctor fuel _ (.read o k) hkS] at hr
  obtain ⟨m, hm⟩ := reported_value_is_fresh_value E.purify (purify_pure E) (keepSound_purify E hk)
    fuel fuel hist o k h' v hr
  refine ⟨m, ?_⟩
  rw [run_purify E S hS hctor fuel _ [] (filter_readsIn S hist), ← value_purify]
  exact hm

/-- (a) and such histories change no contents: an object present after `pre` has the same contents and
    parent links after any continuation `hist` that reads only keys of `S`. -/
theorem reads_outside_impure_operations_preserve_contents (E : Effects κ γ τ σ ν) (S : κ → Prop)
    (hS : E.CleanOn S) (hctor : ∀ t, E.ctorWrites t = []) (hk : KeepSound E)
    (fuel : Nat) (pre hist : List (Impl.Step κ γ τ σ)) (hpre : ReadsIn S pre) (hin : ReadsIn S hist)
    (o : Nat) (ob : Obj κ σ ν) (ho : (Impl.run E fuel pre []).1[o]? = some ob) :
    ∃ ob', (Impl.run E fuel hist (Impl.run E fuel pre []).1).1[o]? = some ob'
      ∧ ob'.contents = ob.contents ∧ ob'.parents = ob.parents := by
  rw [run_purify E S hS hctor fuel pre [] hpre] at ho ⊢
  rw [run_purify E S hS hctor fuel hist _ hin]
  exact pure_history_preserves_contents E.purify (purify_pure E) (keepSound_purify E hk) fuel pre hist o ob ho

/-! ### (b) what goes wrong when the table is not pure / not keep-sound: the D8, D9, D7 behaviours -/

/-- contents are numbers, key `k` reports `contents + k`, the derivation adds 10 -/
def demo (keep : Bool) (vw : List (Nat × Nat × (Nat → Nat))) (cw : List (Nat × (Nat → Nat))) :
    Effects Nat Unit Unit Nat Nat where
  compute := fun k c _ => c + k
  cached := fun _ => true
  deps := fun _ => []
  drops := fun _ => []
  cwrites := fun _ => []
  vwrites := fun k => if k = 1 then vw else []
  apply := fun _ c => c + 10
  keeps := fun _ _ => keep
  ctorWrites := fun _ => cw

/-- object 0 = the caller's array (key 0 = its bytes); object 1 = a valued mapper built from it: key 2 =
    `values` (reads the array), key 1 = `values_masked` (reads the array, then zeroes it in place) -/
def d9b : Effects Nat Unit Unit Nat Nat where
  compute := fun k c vs => if k = 0 then c else 100 * (k % 2) + vs.sum + (if k = 2 then 100 else 0)
  cached := fun _ => false
  deps := fun k => if k = 0 then [] else [(1, 0)]
  drops := fun _ => []
  cwrites := fun k => if k = 1 then [(1, fun _ => 0)] else []
  vwrites := fun _ => []
  apply := fun _ c => c
  keeps := fun _ _ => false
  ctorWrites := fun _ => []

/-- (b, D8) the derived object inherits the cache under a derivation that changes the quantity: after
    `read; derive; read` the derived object reports the *source's* value 1, a freshly built equal object
    reports 11 — and without the first read the very same derived object reports 11: the reported value
    depends on the access history. (`(vis * 2).amplitudes`, `Mask2D` slices' `circular_radius`,
    `Grid2D.is_uniform`, trimmed `dataset.grids` before the repair.) -/
theorem stale_cache_counterexample :
    (Impl.run (demo true [] []) 8
        [.construct () 1 [], .read 0 0, .derive 0 (), .read 1 0] []).2 = [none, some 1, none, some 1]
    ∧ (Impl.run (demo true [] []) 8
        [.construct () 1 [], .derive 0 (), .read 1 0] []).2 = [none, none, some 11]
    ∧ (Impl.run (demo false [] []) 8
        [.construct () 1 [], .read 0 0, .derive 0 (), .read 1 0] []).2 = [none, some 1, none, some 11] := by
  decide

/-- (b, D9) a query on a child object that edits a cached value of its parent in place
    (`MapperValued.mapped_reconstructed_image_from` zeroing columns of `mapper.mapping_matrix`): the
    parent's quantity reports 5 before the query and 0 after it. -/
theorem inplace_cached_value_write_counterexample :
    (Impl.run (demo false [(1, 0, fun _ => 0)] []) 8
        [.construct () 5 [], .construct () 7 [0], .read 0 0, .read 1 1, .read 0 0] []).2
      = [none, none, some 5, some 8, some 0] := by
  decide

/-- (b, D9b — still in the tree, known finding) a quantity of a child object whose body edits the
    *contents* of the object it was given (`MapperValued.values_masked` zeroing entries of the caller's
    `values` array): the caller's array reports 7 before the read and 0 after, and the child's own
    quantity `values` computed from it changes from 107 to 100. -/
theorem inplace_contents_write_counterexample :
    (Impl.run d9b 8
        [.construct () 7 [], .construct () 3 [0], .read 0 0, .read 1 2, .read 1 1, .read 0 0, .read 1 2] []).2
      = [none, none, some 7, some 107, some 107, some 0, some 100] := by
  decide

/-- (b, D7) a constructor that edits the object it is given (`Grid2D(values=arr, mask=…)` masking the
    caller's native array in place): the caller's array reports 7 before the construction and 0 after. -/
theorem constructor_write_counterexample :
    (Impl.run (demo false [] [(0, fun _ => 0)]) 8
        [.construct () 7 [], .read 0 0, .construct () 3 [0], .read 0 0, .read 0 2] []).2
      = [none, some 7, none, some 7, some 2] ∧
    ((Impl.run (demo false [] [(0, fun _ => 0)]) 8
        [.construct () 7 [], .read 0 0, .construct () 3 [0]] []).1.map (·.contents)) = [0, 3] := by
  decide

/-! ### (c) seeded simulation -/

/-- (c) **with a fixed seed the simulated dataset and the generator state left behind do not depend on
    the prior state of the global generator.** -/
theorem seeded_simulation_independent_of_prior_state {ρ β : Type} (G : Rng ρ) (post : List Nat → β)
    (seed : Int) (hs : seed ≠ -1) (npix : Nat) (st₁ st₂ : ρ) :
    Impl.simulate G post seed npix st₁ = Impl.simulate G post seed npix st₂ := by
  simp [Impl.simulate, Impl.setupSeed, hs]

/-- (c) in any history of reseedings, draws and simulations, from any initial generator state, a
    simulation with fixed seed `s` reports `post` of the `npix` draws that follow `seed s` — a function
    of the seed (and of the image, through `post` and `npix`) alone. -/
theorem seeded_history_outputs_agree {ρ β : Type} (G : Rng ρ) (post : List Nat → β)
    (pre : List Impl.RStep) (st₀ : ρ) (seed : Int) (hs : seed ≠ -1) (npix : Nat) :
    (Impl.rstep G post (Impl.rrun G post pre st₀).1 (.simulate seed npix)).2
      = some (post (Impl.drawN G npix (G.seed seed.toNat)).1) := by
  simp [Impl.rstep, Impl.simulate, Impl.setupSeed, hs]

/-- (c) the hypothesis `seed ≠ -1` is needed: with `noise_seed = -1` (`setup_random_seed` draws the seed
    from the global generator) two prior states give two different simulations. -/
theorem unseeded_simulation_depends_on_state :
    (Impl.simulate lcg id (-1) 3 1).1 ≠ (Impl.simulate lcg id (-1) 3 2).1 := by
  decide

/-! ### non-vacuity: the hypotheses are satisfiable by a table with dependencies, cache deletion and
    parents, and histories on it do report values -/

/-- a miniature inversion: key 0 = `mapping_matrix` of the mapper (object 0, cached); on the inversion
    (object 1, parent 0) key 1 = `curvature_matrix` (cached, reads the mapper's key 0), key 2 =
    `curvature_reg_matrix` (cached, reads key 1, then deletes key 1 from the cache —
    `del self.__dict__["curvature_matrix"]`). -/
def miniInversion : Effects Nat Unit Unit Nat Nat where
  compute := fun k c vs => c + 100 * k + vs.sum
  cached := fun _ => true
  deps := fun k => if k = 1 then [(1, 0)] else if k = 2 then [(0, 1)] else []
  drops := fun k => if k = 2 then [1] else []
  cwrites := fun _ => []
  vwrites := fun _ => []
  apply := fun _ c => c + 10
  keeps := fun _ _ => false
  ctorWrites := fun _ => []

example : miniInversion.Pure := ⟨fun _ => rfl, fun _ => rfl, fun _ => rfl⟩
example : KeepSound miniInversion := keepSound_of_no_keeps _ (fun _ _ => rfl)

/-- reading `curvature_reg_matrix` first or last, once or twice, the three quantities report the same
    values; the cache of the inversion ends up without `curvature_matrix` in the first history. -/
example :
    (Impl.run miniInversion 8
      [.construct () 1 [], .construct () 2 [0], .read 1 2, .read 1 1, .read 0 0, .read 1 2] []).2
      = [none, none, some 305, some 103, some 1, some 305]
    ∧ (Impl.run miniInversion 8
      [.construct () 1 [], .construct () 2 [0], .read 0 0, .read 1 1, .read 1 1, .read 1 2] []).2
      = [none, none, some 1, some 103, some 103, some 305]
    ∧ ((Impl.run miniInversion 8
      [.construct () 1 [], .construct () 2 [0], .read 1 2] []).1.map fun ob => ob.cache.map (·.1))
      = [[0], [2]] := by
  decide

/-- the D9b table is clean on the keys other than `values_masked` … -/
example : d9b.CleanOn (fun k => k ≠ 1) := by
  intro k hk
  refine ⟨by simp [d9b, hk], rfl, ?_⟩
  intro d hd
  by_cases h0 : k = 0
  · simp [d9b, h0] at hd
  · simp [d9b, h0] at hd
    rw [hd]; simp
/-- … and a history reading only those keys satisfies `ReadsIn` -/
example : ReadsIn (fun k => k ≠ 1)
    ([.construct () 7 [], .construct () 3 [0], .read 0 0, .read 1 2] : List (Impl.Step Nat Unit Unit Nat)) := by
  intro s hs
  simp at hs
  rcases hs with h | h | h | h <;> subst h <;> simp

/-- a keep-sound table that does keep a key: `copy` (apply = id) keeps everything -/
example : KeepSound ({ demo true [] [] with apply := fun _ c => c } : Effects Nat Unit Unit Nat Nat) :=
  invariant_keys_may_be_kept _ (fun _ _ _ => ⟨rfl, fun _ => rfl⟩)

end C11
