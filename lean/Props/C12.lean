/-
Props/C12.lean — property C12: all geometry is covariant under translation of the coordinate origin.

Every theorem quantifies over all shapes, masks (`bits`), pixel scales (non-zero), origins `o` and
translations `d` in an arbitrary ordered field, and is stated about the `Impl` layer of
Model/Geometry.lean + Model/EntryPoints.lean, i.e. about the formulas of the code with the origin
plumbed exactly as the code plumbs it (after repairs D10a–g).

Coordinate-valued results:  E(shift d cfg) = E(cfg) translated by d.
Index / count / weight-valued results on correspondingly translated points:  unchanged.
-/
import Model.EntryPoints
import Proofs.EntryPoints
import Proofs.EntryPointsDelaunay
import Mathlib.Data.Rat.Floor

open Model

namespace C12

variable {α : Type} [Field α] [LinearOrder α] [IsStrictOrderedRing α]

/-- base lemma: the origin enters only through `central_scaled_coordinate_2d_from`, as `+d_y/s_y`, `-d_x/s_x` -/
theorem origin_enters_through_central_scaled (shape : Nat × Nat) (s o d : α × α)
    (hs1 : s.1 ≠ 0) (hs2 : s.2 ≠ 0) :
    Impl.centralScaled2 shape s (o.1 + d.1, o.2 + d.2)
      = ((Impl.centralScaled2 shape s o).1 + d.1 / s.1, (Impl.centralScaled2 shape s o).2 - d.2 / s.2) :=
  centralScaled2_shift shape s o d hs1 hs2

/-- `Grid2D.from_mask`: pixel-centre grid of any mask translates by `d` -/
theorem grid_from_mask_covariant (g : Geom α) (bits : List Bool) (d : α × α)
    (hs1 : g.s.1 ≠ 0) (hs2 : g.s.2 ≠ 0) :
    Impl.gridFromMask (g.shift d) bits = (Impl.gridFromMask g bits).map (shiftPt d) :=
  gridFromMask_shift g bits d hs1 hs2

/-- `derive_grid.all_false` / unmasked grid -/
theorem all_false_grid_covariant (g : Geom α) (d : α × α) (hs1 : g.s.1 ≠ 0) (hs2 : g.s.2 ≠ 0) :
    Impl.gridAllFalse (g.shift d) = (Impl.gridAllFalse g).map (shiftPt d) :=
  gridAllFalse_shift g d hs1 hs2

/-- edge / border / blurring / sub-border grids: any gather of the mask grid through an index list that
    depends on the mask only (all indices in range) translates by `d` -/
theorem gathered_grid_covariant (g : Geom α) (bits : List Bool) (idx : List Nat) (d : α × α)
    (hs1 : g.s.1 ≠ 0) (hs2 : g.s.2 ≠ 0) (hidx : ∀ k ∈ idx, k < (Impl.gridFromMask g bits).length) :
    Impl.gather (Impl.gridFromMask (g.shift d) bits) idx
      = (Impl.gather (Impl.gridFromMask g bits) idx).map (shiftPt d) := by
  rw [gridFromMask_shift g bits d hs1 hs2]
  exact gather_shift _ idx d hidx

/-- `Grid2D.padded_grid_from` (repair D10a) -/
theorem padded_grid_covariant (g : Geom α) (k : Nat × Nat) (d : α × α)
    (hs1 : g.s.1 ≠ 0) (hs2 : g.s.2 ≠ 0) :
    Impl.paddedGrid (g.shift d) k = (Impl.paddedGrid g k).map (shiftPt d) := by
  unfold Impl.paddedGrid
  exact gridAllFalse_shift (Impl.paddedGeom g k) d hs1 hs2

/-- `Mask2D.resized_from` keeps the record's origin, so its grid translates by `d` for any resized mask -/
theorem resized_grid_covariant (g : Geom α) (newShape : Nat × Nat) (bits' : List Bool) (d : α × α)
    (hs1 : g.s.1 ≠ 0) (hs2 : g.s.2 ≠ 0) :
    Impl.gridFromMask (Impl.resizedGeom (g.shift d) newShape) bits'
      = (Impl.gridFromMask (Impl.resizedGeom g newShape) bits').map (shiftPt d) :=
  gridFromMask_shift (Impl.resizedGeom g newShape) bits' d hs1 hs2

/-- `OverSamplerUniform.over_sampled_grid` / `BorderRelocator.sub_grid` -/
theorem over_sampled_grid_covariant (g : Geom α) (bits : List Bool) (sub : Nat) (d : α × α)
    (hs1 : g.s.1 ≠ 0) (hs2 : g.s.2 ≠ 0) :
    Impl.overSampledGrid (g.shift d) bits sub = (Impl.overSampledGrid g bits sub).map (shiftPt d) :=
  overSampledGrid_shift g bits sub d hs1 hs2

/-- `Mask2D.mask_centre` -/
theorem mask_centre_covariant (g : Geom α) (bits : List Bool) (d : α × α)
    (hs1 : g.s.1 ≠ 0) (hs2 : g.s.2 ≠ 0) :
    Impl.maskCentre (g.shift d) bits = (Impl.maskCentre g bits).map (shiftPt d) :=
  maskCentre_shift g bits d hs1 hs2

/-- `Mask2D.geometry.extent` = (x_min, x_max, y_min, y_max) -/
theorem extent_covariant (shape : Nat × Nat) (s o d : α × α) :
    Impl.extent shape s (o.1 + d.1, o.2 + d.2)
      = ((Impl.extent shape s o).1 + d.2, (Impl.extent shape s o).2.1 + d.2,
         (Impl.extent shape s o).2.2.1 + d.1, (Impl.extent shape s o).2.2.2 + d.1) :=
  extent_shift shape s o d

/-- `Mask2D.zoom_mask_unmasked` (repair D10b): the zoomed record, hence its grid, translates by `d` -/
theorem zoom_mask_covariant (g : Geom α) (bits : List Bool) (zs : Nat × Nat) (d : α × α)
    (hs1 : g.s.1 ≠ 0) (hs2 : g.s.2 ≠ 0) :
    Impl.zoomMaskGeom (g.shift d) bits zs = (Impl.zoomMaskGeom g bits zs).map (·.shift d) :=
  zoomMaskGeom_shift g bits zs d hs1 hs2

/-- … and the pixel-space zoom centre / offsets do not depend on the origin -/
theorem zoom_centre_invariant (g : Geom α) (bits : List Bool) (d : α × α)
    (hs1 : g.s.1 ≠ 0) (hs2 : g.s.2 ≠ 0) :
    Impl.zoomCentre (g.shift d) bits = Impl.zoomCentre g bits :=
  zoomCentre_shift g bits d hs1 hs2

/-- `Array2D.zoomed_around_mask` -/
theorem zoomed_around_mask_covariant (g : Geom α) (bits : List Bool) (es : Nat × Nat) (d : α × α)
    (hs1 : g.s.1 ≠ 0) (hs2 : g.s.2 ≠ 0) :
    Impl.zoomedAroundMaskGeom (g.shift d) bits es
      = (Impl.zoomedAroundMaskGeom g bits es).map (·.shift d) :=
  zoomedAroundMaskGeom_shift g bits es d hs1 hs2

/-- continuous pixel → scaled conversion (`grid_scaled_2d_from`) -/
theorem scaled_of_pixels_covariant (shape : Nat × Nat) (s o d pix : α × α)
    (hs1 : s.1 ≠ 0) (hs2 : s.2 ≠ 0) :
    Impl.scaledOfPixels shape s (o.1 + d.1, o.2 + d.2) pix
      = shiftPt d (Impl.scaledOfPixels shape s o pix) :=
  scaledOfPixels_shift shape s o d pix hs1 hs2

/-- index-valued: continuous pixel coordinates, pixel indices (both code variants) and flattened
    indexes of correspondingly translated points are unchanged, for ANY `int()` function -/
theorem pixel_indices_invariant (trunc : α → Int) (shape : Nat × Nat) (s o d p : α × α)
    (hs1 : s.1 ≠ 0) (hs2 : s.2 ≠ 0) :
    Impl.pixelsOfScaled shape s (o.1 + d.1, o.2 + d.2) (shiftPt d p) = Impl.pixelsOfScaled shape s o p
    ∧ Impl.pixelCoordinates2 trunc shape s (o.1 + d.1, o.2 + d.2) (shiftPt d p)
        = Impl.pixelCoordinates2 trunc shape s o p
    ∧ Impl.pixelCentreOfScaled trunc shape s (o.1 + d.1, o.2 + d.2) (shiftPt d p)
        = Impl.pixelCentreOfScaled trunc shape s o p :=
  ⟨pixelsOfScaled_shift shape s o d p hs1 hs2, pixelCoordinates2_shift trunc shape s o d p hs1 hs2,
   pixelCentreOfScaled_shift trunc shape s o d p hs1 hs2⟩

theorem grid_pixel_indexes_invariant (trunc : α → Int) (shape : Nat × Nat) (s o d : α × α)
    (grid : List (α × α)) (hs1 : s.1 ≠ 0) (hs2 : s.2 ≠ 0) :
    Impl.gridPixelIndexes2 trunc shape s (o.1 + d.1, o.2 + d.2) (grid.map (shiftPt d))
      = Impl.gridPixelIndexes2 trunc shape s o grid := by
  rw [gridPixelIndexes2_eq, gridPixelIndexes2_eq, List.map_map]
  apply List.map_congr_left
  intro p _
  simp only [Function.comp, pixelCentreOfScaled_shift trunc shape s o d p hs1 hs2]

/-- rectangular pixelization on a translated source-plane grid: the overlaid mesh record translates … -/
theorem overlay_mesh_covariant (grid : List (α × α)) (ms : Nat × Nat) (buffer : α) (d : α × α) :
    Impl.overlayMeshGeom (grid.map (shiftPt d)) ms buffer
      = (Impl.overlayMeshGeom grid ms buffer).map (·.shift d) :=
  overlayMeshGeom_shift grid ms buffer d

/-- … and the mapper's index table (hence its mapping matrix, a function of the table and of
    origin-free sub-pixel weights) is unchanged -/
theorem rectangular_mapper_table_invariant (trunc : α → Int) (mesh : Geom α) (grid : List (α × α))
    (d : α × α) (hs1 : mesh.s.1 ≠ 0) (hs2 : mesh.s.2 ≠ 0) :
    Impl.rectangularPixIndexes trunc (mesh.shift d) (grid.map (shiftPt d))
      = Impl.rectangularPixIndexes trunc mesh grid :=
  rectangularPixIndexes_shift trunc mesh grid d hs1 hs2

/-- Delaunay pixelization on a translated source-plane grid and translated mesh vertices: index
    table, sizes and interpolation weights (`MapperDelaunay.pix_sub_weights`, hence its mapping matrix)
    are unchanged — given that Qhull returns the same simplices and the same located simplex for each
    point (its contract; translation commutes with every orientation predicate) and that the vertex
    indexes of located simplices are valid mesh indexes. -/
theorem delaunay_mapper_tables_invariant (grid mesh : List (α × α)) (simplexFor : List Int)
    (simplices : List (List Int)) (d : α × α)
    (hidx : ∀ sub, sub < grid.length →
      ((Impl.pixIndexesDelaunay grid simplexFor simplices mesh).1.getD sub []).getD 1 (-1) ≠ -1 →
      ∀ k, k < 3 →
        (((Impl.pixIndexesDelaunay grid simplexFor simplices mesh).1.getD sub []).getD k 0).toNat
          < mesh.length) :
    Impl.delaunayPixSubWeights (grid.map (shiftPt d)) (mesh.map (shiftPt d)) simplexFor simplices
      = Impl.delaunayPixSubWeights grid mesh simplexFor simplices :=
  delaunayPixSubWeights_shift grid mesh simplexFor simplices d hidx

/-- `Grid2D.grid_2d_radial_projected_from(centre, angle)`: with the extent of the translated mask and
    the translated centre, the projected line translates by `d` — for ANY `int()` and any rotation -/
theorem radial_projected_covariant (trunc : α → Int) (rot : α × α → α × α) (shape : Nat × Nat)
    (s o c d : α × α) (shapeSlim : Nat) :
    Impl.radialProjected trunc rot (Impl.extent shape s (o.1 + d.1, o.2 + d.2)) s
        (c.1 + d.1, c.2 + d.2) shapeSlim
      = (Impl.radialProjected trunc rot (Impl.extent shape s o) s c shapeSlim).map (shiftPt d) := by
  rw [extent_shift]
  exact radialProjected_shift trunc rot (Impl.extent shape s o) s c d shapeSlim

/-- dataset operations return arrays whose record is the input record with at most a new shape
    (apply_noise_scaling, simulator, S/N-limited noise map after repairs D10c–e; trimming): record
    derivation commutes with translation, so every grid built on the result is covariant by the
    theorems above. -/
theorem dataset_records_commute (g : Geom α) (k : Nat × Nat) (d : α × α) :
    Impl.datasetKeepGeom (g.shift d) = (Impl.datasetKeepGeom g).shift d
    ∧ Impl.datasetTrimmedGeom (g.shift d) k = (Impl.datasetTrimmedGeom g k).shift d
    ∧ Impl.paddedGeom (g.shift d) k = (Impl.paddedGeom g k).shift d
    ∧ Impl.resizedGeom (g.shift d) k = (Impl.resizedGeom g k).shift d :=
  ⟨rfl, rfl, rfl, rfl⟩

/-! ### non-vacuity: concrete instance over ℚ (3×4 frame, anisotropic scales, off-origin, d ≠ 0) -/
example :
    let g : Geom ℚ := ⟨(3, 4), (1/2, 3/4), (1/8, -2)⟩
    let bits := [true, false, false, true, false, false, true, true, true, true, false, true]
    let d : ℚ × ℚ := (3/4, -5/4)
    g.s.1 ≠ 0 ∧ g.s.2 ≠ 0
    ∧ Impl.gridFromMask (g.shift d) bits = (Impl.gridFromMask g bits).map (shiftPt d)
    ∧ (Impl.gridFromMask g bits).length = 5
    ∧ Impl.maskCentre (g.shift d) bits = (Impl.maskCentre g bits).map (shiftPt d)
    ∧ (Impl.maskCentre g bits).isSome = true := by
  decide +kernel

end C12
