import Model.Core
namespace C12
-- placeholder until the geometry model lands; replaced below in this round
theorem placeholder : (1 : Nat) + 1 = 2 := rfl
end C12
