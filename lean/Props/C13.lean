/-
Props/C13.lean — property C13: the direct Fourier transform, its preloaded variant and its adjoint
are exact and mutually consistent; the interferometer normal equations are the noise-weighted
real-plus-imaginary Gram products.

All theorems are about the `Impl` layer of Model/DFT.lean (the loop transliterations of
`autoarray/operators/transformer_util.py`, `transformer.py`, `inversion_interferometer_util.py`,
`interferometer/mapping.py`), for every mask / grid, every baseline list (zero and repeated baselines
included: nothing is assumed about them), every image, every real matrix and every complex data /
noise list, over an arbitrary commutative ring (field where a division occurs).  `cos`, `sin` and `π`
are arbitrary parameters; only the adjoint clause needs `cos (-x) = cos x`, `sin (-x) = -sin x`,
discharged for `Real.cos` / `Real.sin` at the end.  Complex numbers are pairs `Cx`.
Helper lemmas live in Proofs/DFT.lean.
-/
import Model.DFT
import Model.Slim
import Proofs.DFT
import Mathlib.Analysis.SpecialFunctions.Trigonometric.Basic

open Model Model.Impl.DFT Model.DFTProofs

namespace C13

variable {α : Type}

/-! ## (a) visibilities are the direct sums; preloaded tables change nothing -/

/-- (a0) the phase: for a pixel centre `(y, x)` and a baseline `(u, v)` the forward transform uses
    `θ = -2π (x u + y v)`, the adjoint `+2π (x u + y v)`. -/
theorem a_phase [CommRing α] (pi y x u v : α) :
    phase pi (y, x) (u, v) = -2 * pi * (x * u + y * v)
    ∧ phasePos pi (y, x) (u, v) = 2 * pi * (x * u + y * v) := by
  exact ⟨rfl, rfl⟩

/-- (a1) the transformer's grid is the list of unmasked pixel centres, in slim (row-major) order,
    converted from arc-seconds to radians: pixel `(i, j)` of the `H×W` frame sits at
    `(o_y + ((H-1)/2 - i) s_y, o_x + (j - (W-1)/2) s_x) · π / 648000`. -/
theorem a_grid_is_pixel_centres_in_radians [Field α] (pi : α) (m : Mask) (sy sx oy ox : α)
    (hsy : sy ≠ 0) (hsx : sx ≠ 0) :
    transformerGrid pi m sy sx oy ox
      = (Impl.nativeForSlim m).map fun p =>
          ((oy + ((((m.h - 1 : Nat) : α)) / 2 - p.1) * sy) * pi / ((648000 : Nat) : α),
           (ox + ((p.2 : α) - (((m.w - 1 : Nat) : α)) / 2) * sx) * pi / ((648000 : Nat) : α)) :=
  transformerGrid_eq pi m sy sx oy ox hsy hsx

/-- (a2) `visibilities_from`: one visibility per baseline, `V_k = Σ_p I_p · (cos θ_pk, sin θ_pk)` with
    `θ_pk` the phase of pixel `p` and baseline `k` — whether or not the transform tables were
    preloaded. -/
theorem a_visibilities [CommRing α] (cos sin : α → α) (pi : α) (preload : Bool) (image : List α)
    (grid uv : List (α × α)) (hlen : image.length = grid.length) :
    visibilitiesFrom cos sin pi preload image grid uv
      = (List.range uv.length).map fun k =>
          (⟨((List.range image.length).map fun p =>
                image.getD p 0 * cos (phase pi (at2 grid p) (at2 uv k))).sum,
            ((List.range image.length).map fun p =>
                image.getD p 0 * sin (phase pi (at2 grid p) (at2 uv k))).sum⟩ : Cx α) := by
  unfold visibilitiesFrom Arr.toList
  cases preload
  · obtain ⟨hn, h⟩ := visibilitiesJit_spec cos sin pi image grid uv
    simp only [Bool.false_eq_true, if_false]
    rw [hn]
    apply List.map_congr_left
    intro k hk
    exact h k (by simpa using hk)
  · obtain ⟨hn, h⟩ := visibilitiesViaPreload_spec cos sin pi image grid uv (le_of_eq hlen)
    simp only [if_true]
    rw [hn]
    apply List.map_congr_left
    intro k hk
    exact h k (by simpa using hk)

/-- (a3) preloaded and non-preloaded transforms are identical, for images and for mapping matrices. -/
theorem a_preload_eq [CommRing α] [BEq α] [LawfulBEq α] (cos sin : α → α) (pi : α) (image : List α)
    (M : List (List α)) (nCols : Nat) (grid uv : List (α × α))
    (hlen : image.length = grid.length) (hM : M.length = grid.length) :
    visibilitiesFrom cos sin pi true image grid uv = visibilitiesFrom cos sin pi false image grid uv
    ∧ transformMappingMatrix keepNonzero cos sin pi true M nCols grid uv
        = transformMappingMatrix keepNonzero cos sin pi false M nCols grid uv := by
  refine ⟨by rw [a_visibilities cos sin pi true image grid uv hlen,
                 a_visibilities cos sin pi false image grid uv hlen], ?_⟩
  have hk : ∀ p c, p < M.length → c < nCols → keepNonzero (matAt M p c) = false → matAt M p c = 0 :=
    fun p c _ _ => keepNonzero_spec _
  obtain ⟨a1, a2, a3⟩ := transformedPreload_spec keepNonzero cos sin pi M M.length nCols grid uv hk
    (le_of_eq hM)
  obtain ⟨b1, b2, b3⟩ := transformedJit_spec keepNonzero cos sin pi M M.length nCols grid uv hk
  unfold transformMappingMatrix Arr2.toLists
  simp only [if_true, Bool.false_eq_true, if_false]
  rw [a1, a2, b1, b2]
  apply List.map_congr_left
  intro k hk'
  apply List.map_congr_left
  intro c hc
  rw [a3 k c (by simpa using hk') (by simpa using hc), b3 k c (by simpa using hk') (by simpa using hc)]

/-! ## (b) the transformed mapping matrix is the operator applied to every column -/

/-- (b1) for **every** real matrix `M` (entries of any sign): entry `[k, c]` of
    `transform_mapping_matrix M` is the visibility `k` of column `c` of `M`,
    `Σ_p M[p,c] · (cos θ_pk, sin θ_pk)`; preloaded or not. -/
theorem b_transformed_mapping_matrix [CommRing α] [BEq α] [LawfulBEq α] (cos sin : α → α) (pi : α)
    (preload : Bool) (M : List (List α)) (nCols : Nat) (grid uv : List (α × α))
    (hM : M.length = grid.length) :
    transformMappingMatrix keepNonzero cos sin pi preload M nCols grid uv
      = (List.range uv.length).map fun k => (List.range nCols).map fun c =>
          (⟨((List.range M.length).map fun p =>
                matAt M p c * cos (phase pi (at2 grid p) (at2 uv k))).sum,
            ((List.range M.length).map fun p =>
                matAt M p c * sin (phase pi (at2 grid p) (at2 uv k))).sum⟩ : Cx α) := by
  have hk : ∀ p c, p < M.length → c < nCols → keepNonzero (matAt M p c) = false → matAt M p c = 0 :=
    fun p c _ _ => keepNonzero_spec _
  have hspec : ∀ k c, Spec.visibility cos sin pi (Spec.column M M.length c) grid (at2 uv k)
      = (⟨((List.range M.length).map fun p =>
                matAt M p c * cos (phase pi (at2 grid p) (at2 uv k))).sum,
            ((List.range M.length).map fun p =>
                matAt M p c * sin (phase pi (at2 grid p) (at2 uv k))).sum⟩ : Cx α) := by
    intro k c
    unfold Spec.visibility
    rw [Spec.column_length]
    congr 1
    · congr 1
      apply List.map_congr_left
      intro p hp
      rw [Spec.column_getD _ _ _ _ (by simpa using hp)]
    · congr 1
      apply List.map_congr_left
      intro p hp
      rw [Spec.column_getD _ _ _ _ (by simpa using hp)]
  unfold transformMappingMatrix Arr2.toLists
  cases preload
  · obtain ⟨b1, b2, b3⟩ := transformedJit_spec keepNonzero cos sin pi M M.length nCols grid uv hk
    simp only [Bool.false_eq_true, if_false]
    rw [b1, b2]
    apply List.map_congr_left
    intro k hk'
    apply List.map_congr_left
    intro c hc
    rw [b3 k c (by simpa using hk') (by simpa using hc), hspec]
  · obtain ⟨a1, a2, a3⟩ := transformedPreload_spec keepNonzero cos sin pi M M.length nCols grid uv hk
      (le_of_eq hM)
    simp only [if_true]
    rw [a1, a2]
    apply List.map_congr_left
    intro k hk'
    apply List.map_congr_left
    intro c hc
    rw [a3 k c (by simpa using hk') (by simpa using hc), hspec]

/-- (b2) the same statement as "operator applied to each column": entry `[k, c]` equals entry `k` of
    `visibilities_from` applied to column `c` of `M` read as an image. -/
theorem b_columnwise_operator [CommRing α] [BEq α] [LawfulBEq α] (cos sin : α → α) (pi : α)
    (preload : Bool) (M : List (List α)) (nCols : Nat) (grid uv : List (α × α))
    (hM : M.length = grid.length) (k c : Nat) (hk : k < uv.length) (hc : c < nCols) :
    ((transformMappingMatrix keepNonzero cos sin pi preload M nCols grid uv).getD k []).getD c ⟨0, 0⟩
      = (visibilitiesFrom cos sin pi preload ((List.range M.length).map fun p => matAt M p c) grid uv).getD
          k ⟨0, 0⟩ := by
  rw [b_transformed_mapping_matrix cos sin pi preload M nCols grid uv hM,
    a_visibilities cos sin pi preload _ grid uv (by simpa using hM)]
  simp only [List.getD_eq_getElem?_getD, List.getElem?_map, List.getElem?_range hk,
    List.getElem?_range hc, Option.map_some, Option.getD_some, List.length_map, List.length_range]
  congr 1
  · congr 1
    apply List.map_congr_left
    intro p hp
    have hp' : p < M.length := by simpa using hp
    simp [List.getElem?_range hp']
  · congr 1
    apply List.map_congr_left
    intro p hp
    have hp' : p < M.length := by simpa using hp
    simp [List.getElem?_range hp']

/-- (b3) the sparsity test the code used before the D11 repair (`value > 0`) gives the same result
    only for matrices without negative entries … -/
theorem b_positive_test_partial [Field α] [LinearOrder α] (cos sin : α → α) (pi : α)
    (M : List (List α)) (nCols : Nat) (grid uv : List (α × α))
    (hnonneg : ∀ p c, p < M.length → c < nCols → 0 ≤ matAt M p c)
    (k c : Nat) (hk : k < uv.length) (hc : c < nCols) :
    (transformedMappingMatrixJit keepPositive cos sin pi M M.length nCols grid uv).get k c
      = (⟨((List.range M.length).map fun p =>
                matAt M p c * cos (phase pi (at2 grid p) (at2 uv k))).sum,
            ((List.range M.length).map fun p =>
                matAt M p c * sin (phase pi (at2 grid p) (at2 uv k))).sum⟩ : Cx α) := by
  obtain ⟨_, _, b3⟩ := transformedJit_spec keepPositive cos sin pi M M.length nCols grid uv
    (fun p c hp hc' => keepPositive_spec_of_nonneg _ (hnonneg p c hp hc'))
  rw [b3 k c hk hc]
  unfold Spec.visibility
  rw [Spec.column_length]
  congr 1
  · congr 1
    apply List.map_congr_left
    intro p hp
    rw [Spec.column_getD _ _ _ _ (by simpa using hp)]
  · congr 1
    apply List.map_congr_left
    intro p hp
    rw [Spec.column_getD _ _ _ _ (by simpa using hp)]

/-- (b4) … and is wrong as soon as an entry is negative: with the single entry `-1`, one pixel and one
    baseline (take `cos = 1`, `sin = 0`, i.e. the zero baseline) the `> 0` test returns `0` where the
    operator gives `-1`, while the repaired `!= 0` test returns `-1`.  This is defect D11. -/
theorem b_positive_test_drops_negative :
    (transformedMappingMatrixJit (α := Int) keepPositive (fun _ => 1) (fun _ => 0) 3 [[-1]] 1 1
        [(0, 0)] [(0, 0)]).get 0 0 = ⟨0, 0⟩
    ∧ (transformedMappingMatrixJit (α := Int) keepNonzero (fun _ => 1) (fun _ => 0) 3 [[-1]] 1 1
        [(0, 0)] [(0, 0)]).get 0 0 = ⟨-1, 0⟩ := by
  decide

/-! ## (c) the image returned from visibilities is the real part of the conjugate transpose -/

/-- (c1) `image_from`: pixel `p` receives `Σ_k (Re V_k · cos φ_pk − Im V_k · sin φ_pk)` with
    `φ_pk = +2π (x_p u_k + y_p v_k)`. -/
theorem c_image_from [CommRing α] (cos sin : α → α) (pi : α) (grid uv : List (α × α))
    (vis : List (Cx α)) :
    imageFrom cos sin pi grid uv vis
      = (List.range grid.length).map fun p =>
          ((List.range uv.length).map fun k =>
            (vis.getD k ⟨0, 0⟩).re * cos (phasePos pi (at2 grid p) (at2 uv k))
              - (vis.getD k ⟨0, 0⟩).im * sin (phasePos pi (at2 grid p) (at2 uv k))).sum := by
  unfold imageFrom Arr.toList
  obtain ⟨hn, h⟩ := imageViaJit_spec cos sin pi grid.length grid uv vis
  rw [hn]
  apply List.map_congr_left
  intro p hp
  rw [h p (by simpa using hp)]
  rfl

/-- (c2) for an even `cos` and an odd `sin` this is `Σ_k Re( conj(A[k,p]) · V_k )`, the real part of
    the conjugate-transpose of the forward operator `A[k,p] = (cos θ_pk, sin θ_pk)` applied to `V`. -/
theorem c_image_is_real_part_of_conjugate_transpose [CommRing α] (cos sin : α → α)
    (hcos : ∀ x, cos (-x) = cos x) (hsin : ∀ x, sin (-x) = -sin x) (pi : α)
    (grid uv : List (α × α)) (vis : List (Cx α)) :
    imageFrom cos sin pi grid uv vis
      = (List.range grid.length).map fun p =>
          ((List.range uv.length).map fun k =>
            cos (phase pi (at2 grid p) (at2 uv k)) * (vis.getD k ⟨0, 0⟩).re
              + sin (phase pi (at2 grid p) (at2 uv k)) * (vis.getD k ⟨0, 0⟩).im).sum := by
  rw [c_image_from]
  apply List.map_congr_left
  intro p _
  have := adjointAt_eq_reConj cos sin hcos hsin pi (at2 grid p) uv vis
  unfold Spec.adjointAt Spec.reConjMul Spec.opEntry at this
  exact this

/-- (c3) adjointness: `⟨A x, V⟩ = ⟨x, image_from V⟩` for every image `x` and every `V`
    (real inner products, `⟨a, b⟩ = Σ Re(conj a · b)`). -/
theorem c_adjoint_identity [CommRing α] (cos sin : α → α)
    (hcos : ∀ x, cos (-x) = cos x) (hsin : ∀ x, sin (-x) = -sin x) (pi : α)
    (x : List α) (grid uv : List (α × α)) (vis : List (Cx α)) (hx : x.length = grid.length) :
    ((List.range uv.length).map fun k =>
        ((visibilitiesFrom cos sin pi false x grid uv).getD k ⟨0, 0⟩).re * (vis.getD k ⟨0, 0⟩).re
          + ((visibilitiesFrom cos sin pi false x grid uv).getD k ⟨0, 0⟩).im * (vis.getD k ⟨0, 0⟩).im).sum
      = ((List.range x.length).map fun p =>
          x.getD p 0 * (imageFrom cos sin pi grid uv vis).getD p 0).sum := by
  have h := adjoint_identity cos sin hcos hsin pi x grid uv vis
  have hv : ∀ k, k < uv.length →
      (visibilitiesFrom cos sin pi false x grid uv).getD k ⟨0, 0⟩
        = Spec.visibility cos sin pi x grid (at2 uv k) := by
    intro k hk
    rw [a_visibilities cos sin pi false x grid uv hx]
    simp [List.getD_eq_getElem?_getD, List.getElem?_range hk, Spec.visibility]
  have hi : ∀ p, p < x.length →
      (imageFrom cos sin pi grid uv vis).getD p 0 = Spec.adjointAt cos sin pi (at2 grid p) uv vis := by
    intro p hp
    rw [c_image_from]
    have hp' : p < grid.length := by omega
    simp [List.getD_eq_getElem?_getD, List.getElem?_range hp', Spec.adjointAt]
  calc _ = ((List.range uv.length).map fun k =>
            Spec.reConjMul (Spec.visibility cos sin pi x grid (at2 uv k)) (vis.getD k ⟨0, 0⟩)).sum := by
          congr 1
          apply List.map_congr_left
          intro k hk
          rw [hv k (by simpa using hk)]
          rfl
    _ = _ := by
          rw [h]
          congr 1
          apply List.map_congr_left
          intro p hp
          rw [hi p (by simpa using hp)]

/-! ## (d) interferometer normal equations -/

/-- (d1) `data_vector[c] = Σ_k ( Re V_k · Re T[k,c] / (Re σ_k)² + Im V_k · Im T[k,c] / (Im σ_k)² )`
    for the transformed mapping matrix `T`. -/
theorem d_data_vector [Field α] (T : List (List (Cx α))) (nVis nCols : Nat) (vis noise : List (Cx α)) :
    (dataVector T nVis nCols vis noise).toList
      = (List.range nCols).map fun c =>
          ((List.range nVis).map fun k =>
            (vis.getD k ⟨0, 0⟩).re * (cxAt T k c).re / ((noise.getD k ⟨0, 0⟩).re ^ 2)
            + (vis.getD k ⟨0, 0⟩).im * (cxAt T k c).im / ((noise.getD k ⟨0, 0⟩).im ^ 2)).sum := by
  obtain ⟨hn, h⟩ := dataVector_spec T nVis nCols vis noise
  unfold Arr.toList
  rw [hn]
  apply List.map_congr_left
  intro c hc
  exact h c (by simpa using hc)

/-- (d2) `curvature_matrix[i,j] = Σ_k Re T[k,i] Re T[k,j] / (Re σ_k)² + Σ_k Im T[k,i] Im T[k,j] / (Im σ_k)²`
    plus the configured diagonal value on the indices of linear objects without regularization. -/
theorem d_curvature_matrix [Field α] (T : List (List (Cx α))) (nVis nCols : Nat) (noise : List (Cx α))
    (noReg : List Nat) (hnd : noReg.Nodup) (d : α) (i j : Nat) :
    (curvatureMatrix T nVis nCols noise noReg d).get i j
      = ((List.range nVis).map fun k =>
          (cxAt T k i).re * (cxAt T k j).re / ((noise.getD k ⟨0, 0⟩).re ^ 2)).sum
        + ((List.range nVis).map fun k =>
          (cxAt T k i).im * (cxAt T k j).im / ((noise.getD k ⟨0, 0⟩).im ^ 2)).sum
        + (if i = j ∧ i ∈ noReg then d else 0) :=
  curvatureMatrix_spec T nVis nCols noise noReg hnd d i j

/-- (d3) hence the curvature matrix is symmetric. -/
theorem d_curvature_symmetric [Field α] (T : List (List (Cx α))) (nVis nCols : Nat)
    (noise : List (Cx α)) (noReg : List Nat) (hnd : noReg.Nodup) (d : α) (i j : Nat) :
    (curvatureMatrix T nVis nCols noise noReg d).get i j
      = (curvatureMatrix T nVis nCols noise noReg d).get j i := by
  rw [d_curvature_matrix T nVis nCols noise noReg hnd d i j,
    d_curvature_matrix T nVis nCols noise noReg hnd d j i]
  have e1 : ((List.range nVis).map fun k =>
      (cxAt T k i).re * (cxAt T k j).re / ((noise.getD k ⟨0, 0⟩).re ^ 2))
      = ((List.range nVis).map fun k =>
      (cxAt T k j).re * (cxAt T k i).re / ((noise.getD k ⟨0, 0⟩).re ^ 2)) := by
    apply List.map_congr_left; intro k _; ring
  have e2 : ((List.range nVis).map fun k =>
      (cxAt T k i).im * (cxAt T k j).im / ((noise.getD k ⟨0, 0⟩).im ^ 2))
      = ((List.range nVis).map fun k =>
      (cxAt T k j).im * (cxAt T k i).im / ((noise.getD k ⟨0, 0⟩).im ^ 2)) := by
    apply List.map_congr_left; intro k _; ring
  rw [e1, e2]
  by_cases h : i = j
  · subst h; rfl
  · have h' : ¬ j = i := fun e => h e.symm
    simp [h, h']

/-- (d4) the operated mapping matrix the normal equations are built from is the `hstack` of the
    per-object transformed mapping matrices: one row per visibility, each row the concatenation, in
    object order, of that row of every object's transformed matrix (so (b1) describes every column). -/
theorem d_operated_mapping_matrix_rows {β : Type} (nVis : Nat) (Ts : List (List (List β))) :
    (hstack nVis Ts).length = nVis
    ∧ ∀ k, k < nVis → (hstack nVis Ts).getD k [] = Ts.flatMap fun T => T.getD k [] :=
  ⟨hstack_length nVis Ts, fun k hk => hstack_row nVis Ts k hk⟩

/-- (d5) composed with (b1): the data vector of a linear object with mapping matrix `M`, written
    directly in terms of `M` — `D[c] = Σ_k ( Re V_k · (Σ_p M[p,c] cos θ_pk) / (Re σ_k)²
    + Im V_k · (Σ_p M[p,c] sin θ_pk) / (Im σ_k)² )`. -/
theorem d_data_vector_from_mapping_matrix [Field α] [BEq α] [LawfulBEq α] (cos sin : α → α) (pi : α)
    (preload : Bool) (M : List (List α)) (nCols : Nat) (grid uv : List (α × α))
    (hM : M.length = grid.length) (vis noise : List (Cx α)) :
    (dataVector (transformMappingMatrix keepNonzero cos sin pi preload M nCols grid uv)
        uv.length nCols vis noise).toList
      = (List.range nCols).map fun c =>
          ((List.range uv.length).map fun k =>
            (vis.getD k ⟨0, 0⟩).re
                * ((List.range M.length).map fun p =>
                    matAt M p c * cos (phase pi (at2 grid p) (at2 uv k))).sum
                / ((noise.getD k ⟨0, 0⟩).re ^ 2)
            + (vis.getD k ⟨0, 0⟩).im
                * ((List.range M.length).map fun p =>
                    matAt M p c * sin (phase pi (at2 grid p) (at2 uv k))).sum
                / ((noise.getD k ⟨0, 0⟩).im ^ 2)).sum := by
  rw [d_data_vector, b_transformed_mapping_matrix cos sin pi preload M nCols grid uv hM]
  apply List.map_congr_left
  intro c hc
  congr 1
  apply List.map_congr_left
  intro k hk
  rw [cxAt_table uv.length nCols _ k c (by simpa using hk) (by simpa using hc)]

/-! ## non-vacuity -/

/-- the two hypotheses of the adjoint clause hold for the real cosine and sine … -/
example : (∀ x : ℝ, Real.cos (-x) = Real.cos x) ∧ (∀ x : ℝ, Real.sin (-x) = -Real.sin x) :=
  ⟨Real.cos_neg, Real.sin_neg⟩

/-- … so the adjoint clause instantiates at `ℝ` with `Real.cos`, `Real.sin`, `Real.pi`. -/
example (x : List ℝ) (grid uv : List (ℝ × ℝ)) (vis : List (Cx ℝ)) (hx : x.length = grid.length) :=
  c_adjoint_identity Real.cos Real.sin Real.cos_neg Real.sin_neg Real.pi x grid uv vis hx

/-- the loops really run: exact integer arithmetic with `cos t = t + 1`, `sin t = t`, `π = 1`
    (arbitrary stand-ins), two pixels, two baselines (the second one zero), a signed 2×2 matrix;
    preloaded and direct paths agree and the transformed matrix is the column-wise transform. -/
example :
    let cos : Int → Int := fun t => t + 1
    let sin : Int → Int := fun t => t
    let grid : List (Int × Int) := [(1, 2), (0, -1)]
    let uv : List (Int × Int) := [(1, 1), (0, 0)]
    visibilitiesFrom cos sin 1 false [3, -2] grid uv = [⟨-21, -22⟩, ⟨1, 0⟩]
    ∧ visibilitiesFrom cos sin 1 true [3, -2] grid uv = [⟨-21, -22⟩, ⟨1, 0⟩]
    ∧ transformMappingMatrix keepNonzero cos sin 1 true [[3, 0], [-2, 5]] 2 grid uv
        = [[⟨-21, -22⟩, ⟨15, 10⟩], [⟨1, 0⟩, ⟨5, 0⟩]]
    ∧ transformMappingMatrix keepNonzero cos sin 1 false [[3, 0], [-2, 5]] 2 grid uv
        = [[⟨-21, -22⟩, ⟨15, 10⟩], [⟨1, 0⟩, ⟨5, 0⟩]]
    ∧ imageFrom cos sin 1 grid uv [⟨1, 2⟩, ⟨-1, 3⟩] = [-6, 2] := by
  decide

end C13
