/-
Props/C13.lean — property C13 (work in progress: theorems are being added).
-/
import Model.DFT

open Model

namespace C13

/-- placeholder while the file is built up: a point-set array reads back the value written. -/
theorem pointSet_get_self {β : Type} (a : Impl.DFT.Arr β) (k : Nat) (v : β) :
    (Impl.DFT.pointSet a k v).get k = v := by simp [Impl.DFT.pointSet]

end C13
