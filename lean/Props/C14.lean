/- Props/C14.lean — placeholder while the proofs are being written. -/
import Model.Resize

open Model

namespace C14

theorem placeholder : (1 : Nat) = 1 := rfl

end C14
