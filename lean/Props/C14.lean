/-
Props/C14.lean — property C14: resize, pad and trim keep data centred and attached to its
coordinates; zoom windows contain every unmasked pixel with its value.

All theorems quantify over every source shape and target shape (every parity combination), every
odd kernel shape, every mask, every value list (element type `α` arbitrary), every pixel scale and
origin in any field of characteristic zero, every buffer ≥ 0 — no size bound.  They are stated
about the `Impl` layer of Model/Resize.lean (the loop transliterations of
`resized_array_2d_from`, `extracted_array_2d_from`, `Array2D.resized_from / padded_… / trimmed_…`,
`Mask2D.resized_from / trimmed_array_from / zoom_region`, `Imaging.apply_mask`), which is what the
driver executes against the Python.

Arrays are row-major flat lists; pixel `(r,c)` of an `h×w` array `a` is `a[r*w + c]`.
`Arr.WF a zero` is the invariant every `Array2D` satisfies after construction (well-formed mask,
native values of the mask's shape, zeros at masked pixels).
-/
import Model.Resize
import Proofs.Resize
import Proofs.ResizeArr
import Proofs.ResizePad
import Proofs.ResizeZoom
import Proofs.ResizeCoord
import Proofs.ResizeBlur
import Proofs.ResizeChain
import Mathlib.Algebra.Order.Field.Rat

open Model

namespace C14

/-! ### clause (a): resizing is a centred window copy -/

/-- (a1) `resized_array_2d_from` (the loop nest, for the default centre and for any explicit
    `origin`) equals the closed form: pixel `(r,c)` of the result is the source pixel
    `(r + c_y − ⌊h'/2⌋, c + c_x − ⌊w'/2⌋)` when that lies in the source, else the pad value;
    `(c_y, c_x) = (⌊h/2⌋, ⌊w/2⌋)` by default. -/
theorem resized_eq_centred_window (src : List α) (h w h' w' : Nat) (origin : Option (Nat × Nat))
    (pad zero : α) :
    Impl.resizedArray2d src h w h' w' origin pad zero
      = (pixels h' w').map fun p =>
          let cy := (origin.getD (h / 2, w / 2)).1
          let cx := (origin.getD (h / 2, w / 2)).2
          let y : Int := (cy : Int) - ((h' / 2 : Nat) : Int) + (p.1 : Int)
          let x : Int := (cx : Int) - ((w' / 2 : Nat) : Int) + (p.2 : Int)
          if 0 ≤ y ∧ y < (h : Int) ∧ 0 ≤ x ∧ x < (w : Int) then src.getD (y.toNat * w + x.toNat) zero
          else pad := by
  rw [resizedArray2d_eq_at]; rfl

/-- (a2) the same, read pixel by pixel, with the length of the result. -/
theorem resized_getElem (src : List α) (h w h' w' : Nat) (pad zero : α) :
    (Impl.resizedArray2d src h w h' w' none pad zero).length = h' * w'
    ∧ ∀ r c, r < h' → c < w' →
        (Impl.resizedArray2d src h w h' w' none pad zero)[r * w' + c]?
          = some (let y : Int := ((h / 2 : Nat) : Int) - ((h' / 2 : Nat) : Int) + (r : Int)
                  let x : Int := ((w / 2 : Nat) : Int) - ((w' / 2 : Nat) : Int) + (c : Int)
                  if 0 ≤ y ∧ y < (h : Int) ∧ 0 ≤ x ∧ x < (w : Int) then
                    src.getD (y.toNat * w + x.toNat) zero
                  else pad) := by
  rw [resizedArray2d_eq]
  refine ⟨tab_length _ _ _, fun r c hr hc => ?_⟩
  rw [tab_getElem? _ _ _ r c hr hc]; rfl

/-- (a3) `Mask2D.resized_from`: pixel scales and origin are kept, the new mask is well formed with
    the requested shape, and its bit at `(r,c)` is the source bit at the centred-window position,
    or the mask pad value outside the source. -/
theorem mask_resized_getElem (gm : Impl.GMask α) (hwf : gm.mask.WF) (h' w' : Nat) (pad : Bool) :
    (Impl.maskResizedFrom gm h' w' pad).geom = gm.geom
    ∧ (Impl.maskResizedFrom gm h' w' pad).mask.h = h'
    ∧ (Impl.maskResizedFrom gm h' w' pad).mask.w = w'
    ∧ (Impl.maskResizedFrom gm h' w' pad).mask.WF
    ∧ ∀ r c, r < h' → c < w' →
        (Impl.maskResizedFrom gm h' w' pad).mask.get r c
          = (let y : Int := ((gm.mask.h / 2 : Nat) : Int) - ((h' / 2 : Nat) : Int) + (r : Int)
             let x : Int := ((gm.mask.w / 2 : Nat) : Int) - ((w' / 2 : Nat) : Int) + (c : Int)
             if 0 ≤ y ∧ y < (gm.mask.h : Int) ∧ 0 ≤ x ∧ x < (gm.mask.w : Int) then
               gm.mask.get y.toNat x.toNat
             else pad) := by
  refine ⟨rfl, rfl, rfl, maskResized_WF gm h' w' pad, fun r c hr hc => ?_⟩
  rw [maskResized_get gm h' w' pad r c hr hc]
  unfold Spec.resizedAt Spec.srcIndex
  simp only
  split
  · rename_i hin
    exact bits_getD_eq_get gm.mask hwf _ _ (by omega) (by omega)
  · rfl

/-- (a4) `Array2D.resized_from`: the mask is resized as in (a3) (same centred window, mask pad
    value), the values are the same centred window of the native values padded with zero and
    zeroed where the new mask is masked; the storage flag is kept and the result satisfies the
    `Array2D` invariant. -/
theorem array_resized_native (a : Impl.Arr α) (h' w' : Nat) (maskPad : Bool) (zero : α) :
    (Impl.arrayResizedFrom a h' w' maskPad zero).gm = Impl.maskResizedFrom a.gm h' w' maskPad
    ∧ (Impl.arrayResizedFrom a h' w' maskPad zero).storeNative = a.storeNative
    ∧ (Impl.arrayResizedFrom a h' w' maskPad zero).WF zero
    ∧ ∀ r c, r < h' → c < w' →
        (Impl.arrayResizedFrom a h' w' maskPad zero).native.getD (r * w' + c) zero
          = if (Impl.maskResizedFrom a.gm h' w' maskPad).mask.get r c then zero
            else
              (let y : Int := ((a.gm.mask.h / 2 : Nat) : Int) - ((h' / 2 : Nat) : Int) + (r : Int)
               let x : Int := ((a.gm.mask.w / 2 : Nat) : Int) - ((w' / 2 : Nat) : Int) + (c : Int)
               if 0 ≤ y ∧ y < (a.gm.mask.h : Int) ∧ 0 ≤ x ∧ x < (a.gm.mask.w : Int) then
                 a.native.getD (y.toNat * a.gm.mask.w + x.toNat) zero
               else zero) := by
  refine ⟨rfl, rfl, arrayResized_WF a h' w' maskPad zero, fun r c hr hc => ?_⟩
  rw [arrayResized_native_getD a h' w' maskPad zero r c hr hc]; rfl

/-- (a5) `extracted_array_2d_from(array, y0, y1, x0, x1)` is the window `array[y0:y1, x0:x1]`
    with zeros where the window leaves the source (any signed window corners). -/
theorem extracted_eq_window (src : List α) (h w : Nat) (y0 y1 x0 x1 : Int) (zero : α) :
    Impl.extractedArray2d src h w y0 y1 x0 x1 zero
      = (pixels (y1 - y0).toNat (x1 - x0).toNat).map fun p =>
          let y : Int := y0 + (p.1 : Int)
          let x : Int := x0 + (p.2 : Int)
          if 0 ≤ y ∧ 0 ≤ x ∧ y ≤ (h : Int) - 1 ∧ x ≤ (w : Int) - 1 then
            src.getD (y.toNat * w + x.toNat) zero
          else zero := by
  rw [extractedArray2d_eq]; rfl

/-! ### clause (b): the window is centred -/

/-- (b1) along one axis `n → n'` the window offset is `t = ⌊n/2⌋ − ⌊n'/2⌋`.  Cropping (`n' ≤ n`):
    `t` rows are removed before and `n − n' − t` after, all `n'` kept rows are source rows, and the
    two margins differ by at most one — they are equal when the parity is preserved.
    Embedding (`n ≤ n'`): `−t` pad rows before and `n' − n + t` after, differing by at most one,
    equal when the parity is preserved. -/
theorem centred_margins (n n' : Nat) :
    let t : Int := ((n / 2 : Nat) : Int) - ((n' / 2 : Nat) : Int)
    (n' ≤ n → 0 ≤ t ∧ t + n' ≤ n ∧ (t - ((n : Int) - n' - t)).natAbs ≤ 1
        ∧ (n % 2 = n' % 2 → t = (n : Int) - n' - t))
    ∧ (n ≤ n' → 0 ≤ -t ∧ -t + n ≤ n' ∧ (-t - ((n' : Int) - n + t)).natAbs ≤ 1
        ∧ (n % 2 = n' % 2 → -t = (n' : Int) - n + t)) := by
  intro t
  constructor <;> intro hle <;> refine ⟨?_, ?_, ?_, ?_⟩ <;> omega

/-- (b2) centred crop: for `h' ≤ h`, `w' ≤ w` no pad value appears; pixel `(r,c)` of the result is
    source pixel `(r + t, c + u)` with `t = ⌊h/2⌋ − ⌊h'/2⌋`, `u = ⌊w/2⌋ − ⌊w'/2⌋`. -/
theorem crop_is_centred (src : List α) (h w h' w' : Nat) (pad zero : α) (hh : h' ≤ h) (hw : w' ≤ w)
    (r c : Nat) (hr : r < h') (hc : c < w') :
    (Impl.resizedArray2d src h w h' w' none pad zero)[r * w' + c]?
      = some (src.getD ((r + (h / 2 - h' / 2)) * w + (c + (w / 2 - w' / 2))) zero)
    ∧ r + (h / 2 - h' / 2) < h ∧ c + (w / 2 - w' / 2) < w := by
  refine ⟨?_, by omega, by omega⟩
  rw [resizedArray2d_eq, tab_getElem? _ _ _ r c hr hc]
  unfold Spec.resizedAt Spec.srcIndex
  have hin : 0 ≤ ((h / 2 : Nat) : Int) - ((h' / 2 : Nat) : Int) + (r : Int)
      ∧ ((h / 2 : Nat) : Int) - ((h' / 2 : Nat) : Int) + (r : Int) < (h : Int)
      ∧ 0 ≤ ((w / 2 : Nat) : Int) - ((w' / 2 : Nat) : Int) + (c : Int)
      ∧ ((w / 2 : Nat) : Int) - ((w' / 2 : Nat) : Int) + (c : Int) < (w : Int) := by omega
  simp only [hin, and_self, if_true]
  have e1 : (((h / 2 : Nat) : Int) - ((h' / 2 : Nat) : Int) + (r : Int)).toNat = r + (h / 2 - h' / 2) := by
    omega
  have e2 : (((w / 2 : Nat) : Int) - ((w' / 2 : Nat) : Int) + (c : Int)).toNat = c + (w / 2 - w' / 2) := by
    omega
  rw [e1, e2]

/-- (b3) centred embedding: for `h ≤ h'`, `w ≤ w'` the source occupies rows `t … t+h−1`, columns
    `u … u+w−1` (`t = ⌊h'/2⌋ − ⌊h/2⌋`, `u = ⌊w'/2⌋ − ⌊w/2⌋`) unchanged; everything else is pad. -/
theorem embed_is_centred (src : List α) (h w h' w' : Nat) (pad zero : α) (hh : h ≤ h') (hw : w ≤ w')
    (r c : Nat) (hr : r < h') (hc : c < w') :
    (Impl.resizedArray2d src h w h' w' none pad zero)[r * w' + c]?
      = some (if (h' / 2 - h / 2 ≤ r ∧ r < h' / 2 - h / 2 + h) ∧ (w' / 2 - w / 2 ≤ c ∧ c < w' / 2 - w / 2 + w)
              then src.getD ((r - (h' / 2 - h / 2)) * w + (c - (w' / 2 - w / 2))) zero else pad)
    ∧ h' / 2 - h / 2 + h ≤ h' ∧ w' / 2 - w / 2 + w ≤ w' := by
  refine ⟨?_, by omega, by omega⟩
  rw [resizedArray2d_eq, tab_getElem? _ _ _ r c hr hc]
  unfold Spec.resizedAt Spec.srcIndex
  by_cases hin : (h' / 2 - h / 2 ≤ r ∧ r < h' / 2 - h / 2 + h) ∧ (w' / 2 - w / 2 ≤ c ∧ c < w' / 2 - w / 2 + w)
  · have hin' : 0 ≤ ((h / 2 : Nat) : Int) - ((h' / 2 : Nat) : Int) + (r : Int)
        ∧ ((h / 2 : Nat) : Int) - ((h' / 2 : Nat) : Int) + (r : Int) < (h : Int)
        ∧ 0 ≤ ((w / 2 : Nat) : Int) - ((w' / 2 : Nat) : Int) + (c : Int)
        ∧ ((w / 2 : Nat) : Int) - ((w' / 2 : Nat) : Int) + (c : Int) < (w : Int) := by omega
    simp only [hin, hin', and_self, if_true]
    have e1 : (((h / 2 : Nat) : Int) - ((h' / 2 : Nat) : Int) + (r : Int)).toNat = r - (h' / 2 - h / 2) := by
      omega
    have e2 : (((w / 2 : Nat) : Int) - ((w' / 2 : Nat) : Int) + (c : Int)).toNat = c - (w' / 2 - w / 2) := by
      omega
    rw [e1, e2]
  · have hin' : ¬(0 ≤ ((h / 2 : Nat) : Int) - ((h' / 2 : Nat) : Int) + (r : Int)
        ∧ ((h / 2 : Nat) : Int) - ((h' / 2 : Nat) : Int) + (r : Int) < (h : Int)
        ∧ 0 ≤ ((w / 2 : Nat) : Int) - ((w' / 2 : Nat) : Int) + (c : Int)
        ∧ ((w / 2 : Nat) : Int) - ((w' / 2 : Nat) : Int) + (c : Int) < (w : Int)) := by omega
    simp only [hin, hin', if_false]

/-- (b4) `trimmed_after_convolution_from(k)` alone (odd `k`, smaller than the array): the values
    come from a numpy slice, the mask from the centred `resized_from` — both are the centred crop by
    the same `((k_y−1)/2, (k_x−1)/2)` offset, so values stay attached to their mask bits; geometry and
    storage flag are kept and the result satisfies the `Array2D` invariant. -/
theorem trimmed_is_centred_crop (a : Impl.Arr α) (kh kw : Nat) (zero : α) (hkh : kh % 2 = 1)
    (hkw : kw % 2 = 1) (hwf : a.WF zero) (hh : kh - 1 < a.gm.mask.h) (hw : kw - 1 < a.gm.mask.w) :
    ∃ t, Impl.trimmedAfterConvolution a kh kw zero = some t
      ∧ t.gm.geom = a.gm.geom ∧ t.gm.mask.h = a.gm.mask.h - (kh - 1) ∧ t.gm.mask.w = a.gm.mask.w - (kw - 1)
      ∧ t.storeNative = a.storeNative ∧ t.WF zero
      ∧ ∀ r c, r < a.gm.mask.h - (kh - 1) → c < a.gm.mask.w - (kw - 1) →
          t.gm.mask.get r c = a.gm.mask.get ((kh - 1) / 2 + r) ((kw - 1) / 2 + c)
          ∧ t.native.getD (r * (a.gm.mask.w - (kw - 1)) + c) zero
              = a.native.getD (((kh - 1) / 2 + r) * a.gm.mask.w + ((kw - 1) / 2 + c)) zero := by
  obtain ⟨cy, rfl⟩ : ∃ cy, kh = 2 * cy + 1 := ⟨kh / 2, by omega⟩
  obtain ⟨cx, rfl⟩ : ∃ cx, kw = 2 * cx + 1 := ⟨kw / 2, by omega⟩
  have e1 : 2 * cy + 1 - 1 = 2 * cy := by omega
  have e2 : 2 * cx + 1 - 1 = 2 * cx := by omega
  have e3 : 2 * cy / 2 = cy := by omega
  have e4 : 2 * cx / 2 = cx := by omega
  simp only [e1, e2, e3, e4] at hh hw ⊢
  exact trimmed_at a zero hwf cy cx hh hw

/-! ### clause (c): round trips lose nothing -/

/-- (c1) enlarging then shrinking back is the identity for **every** parity combination and any pad
    values — raw arrays. -/
theorem shrink_enlarge_identity (a : List α) (h w h' w' : Nat) (pad pad' zero : α) (hh : h ≤ h')
    (hw : w ≤ w') (ha : a.length = h * w) :
    Impl.resizedArray2d (Impl.resizedArray2d a h w h' w' none pad zero) h' w' h w none pad' zero = a :=
  shrink_enlarge a h w h' w' pad pad' zero hh hw ha

/-- (c2) the same for `Mask2D.resized_from` (mask, pixel scales and origin all restored). -/
theorem mask_shrink_enlarge_identity (gm : Impl.GMask α) (hwf : gm.mask.WF) (h' w' : Nat)
    (pad pad' : Bool) (hh : gm.mask.h ≤ h') (hw : gm.mask.w ≤ w') :
    Impl.maskResizedFrom (Impl.maskResizedFrom gm h' w' pad) gm.mask.h gm.mask.w pad' = gm :=
  maskResized_there_and_back gm hwf h' w' pad pad' hh hw

/-- (c3) the same for `Array2D.resized_from` (mask, geometry, values, storage flag). -/
theorem array_shrink_enlarge_identity (a : Impl.Arr α) (zero : α) (hwf : a.WF zero) (h' w' : Nat)
    (hh : a.gm.mask.h ≤ h') (hw : a.gm.mask.w ≤ w') (mp mp' : Bool) :
    Impl.arrayResizedFrom (Impl.arrayResizedFrom a h' w' mp zero) a.gm.mask.h a.gm.mask.w mp' zero = a :=
  arrayResized_there_and_back a zero hwf h' w' hh hw mp mp'

/-- (c4) `trimmed_after_convolution_from(k)` after `padded_before_convolution_from(k)` is the
    identity on `Array2D`s for every odd kernel shape (either mask pad value). -/
theorem trim_pad_identity (a : Impl.Arr α) (kh kw : Nat) (maskPad : Bool) (zero : α)
    (hkh : kh % 2 = 1) (hkw : kw % 2 = 1) (hwf : a.WF zero) (hh : 0 < a.gm.mask.h)
    (hw : 0 < a.gm.mask.w) :
    Impl.trimmedAfterConvolution (Impl.paddedBeforeConvolution a kh kw maskPad zero) kh kw zero
      = some a :=
  trim_pad a kh kw maskPad zero hkh hkw hwf hh hw

/-- (c5) `Mask2D.trimmed_array_from(padded, image_shape)` applied to the array padded for an odd
    kernel returns the original native values and shape. -/
theorem trimmed_array_from_padded (a : Impl.Arr α) (kh kw : Nat) (maskPad : Bool) (zero : α)
    (hkh : kh % 2 = 1) (hkw : kw % 2 = 1) (hwf : a.WF zero) :
    Impl.trimmedArrayFrom (Impl.paddedBeforeConvolution a kh kw maskPad zero).native
        (a.gm.mask.h + (kh - 1)) (a.gm.mask.w + (kw - 1)) a.gm.mask.h a.gm.mask.w zero
      = some (a.gm.mask.h, a.gm.mask.w, a.native) := by
  obtain ⟨cy, rfl⟩ : ∃ cy, kh = 2 * cy + 1 := ⟨kh / 2, by omega⟩
  obtain ⟨cx, rfl⟩ : ∃ cx, kw = 2 * cx + 1 := ⟨kw / 2, by omega⟩
  unfold Impl.paddedBeforeConvolution
  simp only [Nat.add_sub_cancel]
  exact trimmedArrayFrom_padded a zero hwf cy cx maskPad

/-! ### clause (d): parity preserved ⇒ coordinates, data and noise stay attached -/

/-- (d0) when the automatic padding of `Imaging.apply_mask` fires: for an odd kernel
    `(2c_y+1)×(2c_x+1)`, `blurring_from` completes (no padding) iff the kernel footprint of every
    unmasked pixel lies inside the frame; otherwise data and noise map are both padded for the kernel
    with masked pixels. -/
theorem auto_padding_iff (data noise : List α) (gm : Impl.GMask α) (cy cx : Nat) (zero : α) :
    (Impl.imagingApplyMask data noise gm (2 * cy + 1) (2 * cx + 1) zero
        = (Impl.arrayWithMask data gm zero, Impl.arrayWithMask noise gm zero)
      ∨ Impl.imagingApplyMask data noise gm (2 * cy + 1) (2 * cx + 1) zero
        = (Impl.paddedBeforeConvolution (Impl.arrayWithMask data gm zero) (2 * cy + 1) (2 * cx + 1) true zero,
           Impl.paddedBeforeConvolution (Impl.arrayWithMask noise gm zero) (2 * cy + 1) (2 * cx + 1) true zero))
    ∧ (Impl.imagingApplyMask data noise gm (2 * cy + 1) (2 * cx + 1) zero
        = (Impl.arrayWithMask data gm zero, Impl.arrayWithMask noise gm zero)
      ↔ (∀ y x, y < gm.mask.h → x < gm.mask.w → gm.mask.get y x = false →
            cy ≤ y ∧ y + cy < gm.mask.h ∧ cx ≤ x ∧ x + cx < gm.mask.w)) := by
  have hiff := blurringFits_iff gm.mask cy cx
  unfold Impl.imagingApplyMask
  by_cases hfit : Impl.blurringFits gm.mask (2 * cy + 1) (2 * cx + 1) = true
  · simp only [hfit, if_true, true_or, true_and, true_iff]
    exact hiff.mp hfit
  · simp only [hfit, Bool.false_eq_true, if_false, or_true, true_and]
    have hne : ¬(cy = 0 ∧ cx = 0) := by
      rintro ⟨rfl, rfl⟩
      apply hfit
      apply hiff.mpr
      intro y x hy hx _
      omega
    constructor
    · intro heq
      exfalso
      have h1 := congrArg (fun p : Impl.Arr α × Impl.Arr α => p.1.gm.mask.h) heq
      have h2 := congrArg (fun p : Impl.Arr α × Impl.Arr α => p.1.gm.mask.w) heq
      simp only [Impl.paddedBeforeConvolution, Impl.arrayResizedFrom, Impl.maskResizedFrom,
        Impl.arrayWithMask] at h1 h2
      omega
    · intro h
      exact absurd (hiff.mpr h) hfit

/-- (d0') successive `apply_mask` calls: starting from a fresh unmasked `h×w` dataset `(d0, n0)`,
    applying masks `m₁, …, m_k, m` one after the other (each of the dataset's shape, odd PSF) succeeds
    and the final data and noise map are exactly those of a single `apply_mask(m)` on the original
    dataset — every call reads the retained unmasked dataset (`self.unmasked`, or `self` while its
    mask is all-False), never the already-masked arrays.  With (d5) the triples of the final mask's
    unmasked pixels are those of the original dataset. -/
theorem successive_apply_mask_eq_last (d0 n0 : List α) (h w : Nat) (g : Impl.Geom α)
    (gms : List (Impl.GMask α)) (gm : Impl.GMask α) (cy cx : Nat) (zero : α)
    (hg : ∀ m ∈ gms ++ [gm], m.mask.h = h ∧ m.mask.w = w)
    (hd : d0.length = h * w) (hn : n0.length = h * w) (hh : 1 ≤ h) (hw : 1 ≤ w) :
    ∃ s, Impl.imagingApplyMasks (Impl.imagingInit d0 n0 h w g) (gms ++ [gm]) (2 * cy + 1) (2 * cx + 1) zero
        = some s
      ∧ s.data = (Impl.imagingApplyMask d0 n0 gm (2 * cy + 1) (2 * cx + 1) zero).1
      ∧ s.noise = (Impl.imagingApplyMask d0 n0 gm (2 * cy + 1) (2 * cx + 1) zero).2 := by
  obtain ⟨s1, h1, hinv1⟩ := chain_inv d0 n0 h w gms cy cx zero
    (fun m hm => hg m (List.mem_append_left _ hm)) hd hn hh hw _ (imagingInit_inv d0 n0 h w g)
  obtain ⟨s2, h2, hd2, hn2, _⟩ := step_spec d0 n0 h w s1 gm cy cx zero hinv1
    (hg gm (List.mem_append_right _ List.mem_cons_self)).1
    (hg gm (List.mem_append_right _ List.mem_cons_self)).2 hd hn hh hw
  refine ⟨s2, ?_, hd2, hn2⟩
  unfold Impl.imagingApplyMasks at h1 ⊢
  rw [foldl_bind_append_one, h1]
  exact h2

section Coordinates
variable {F : Type} [Field F] [CharZero F]

/-- (d1) the pixel-centre coordinates computed by `grid_2d_slim_via_mask_from` are
    `y = o_y + ((H−1)/2 − i)·s_y`, `x = o_x + (j − (W−1)/2)·s_x` (non-zero pixel scales). -/
theorem pixel_centre_closed_form (h w : Nat) (oy ox sy sx : F) (i j : Nat) (hsy : sy ≠ 0)
    (hsx : sx ≠ 0) :
    Impl.pixelCentreY h oy sy i = oy + (((h - 1 : Nat) : F) / 2 - (i : F)) * sy
    ∧ Impl.pixelCentreX w ox sx j = ox + ((j : F) - ((w - 1 : Nat) : F) / 2) * sx := by
  rw [pixelCentreY_eq h oy sy i hsy, pixelCentreX_eq w ox sx j hsx]
  unfold Spec.centreY Spec.centreX
  simp

/-- (d2) if a resize `H → H'` preserves the parity of the number of rows, the pixel that survives
    from row `i` into row `i'` (`i' + ⌊H/2⌋ = i + ⌊H'/2⌋`, the centred-window correspondence of (a))
    has the same y coordinate in the new frame — same origin, same scale. -/
theorem coordinate_kept_y (h h' i i' : Nat) (oy sy : F) (hsy : sy ≠ 0) (h1 : 1 ≤ h) (h1' : 1 ≤ h')
    (hpar : h % 2 = h' % 2) (hidx : i' + h / 2 = i + h' / 2) :
    Impl.pixelCentreY h' oy sy i' = Impl.pixelCentreY h oy sy i := by
  rw [pixelCentreY_eq _ _ _ _ hsy, pixelCentreY_eq _ _ _ _ hsy]
  exact centreY_kept h h' i i' oy sy h1 h1' hpar hidx

/-- (d3) the same for columns / x. -/
theorem coordinate_kept_x (w w' j j' : Nat) (ox sx : F) (hsx : sx ≠ 0) (h1 : 1 ≤ w) (h1' : 1 ≤ w')
    (hpar : w % 2 = w' % 2) (hidx : j' + w / 2 = j + w' / 2) :
    Impl.pixelCentreX w' ox sx j' = Impl.pixelCentreX w ox sx j := by
  rw [pixelCentreX_eq _ _ _ _ hsx, pixelCentreX_eq _ _ _ _ hsx]
  exact centreX_kept w w' j j' ox sx h1 h1' hpar hidx

/-- (d3') any `Array2D.resized_from` that preserves the parity of both dimensions: a pixel `(y,x)` of
    the source that survives at `(r,c)` (the centred-window correspondence `r + ⌊H/2⌋ = y + ⌊H'/2⌋`,
    `c + ⌊W/2⌋ = x + ⌊W'/2⌋`) keeps its mask bit, its value and both scaled coordinates. -/
theorem resize_keeps_value_and_coordinate (a : Impl.Arr F) (zero : F) (hwf : a.WF zero) (h' w' : Nat)
    (mp : Bool) (h1 : 1 ≤ a.gm.mask.h) (w1 : 1 ≤ a.gm.mask.w) (h1' : 1 ≤ h') (w1' : 1 ≤ w')
    (hpy : a.gm.mask.h % 2 = h' % 2) (hpx : a.gm.mask.w % 2 = w' % 2)
    (hsy : a.gm.geom.sy ≠ 0) (hsx : a.gm.geom.sx ≠ 0)
    (y x r c : Nat) (hy : y < a.gm.mask.h) (hx : x < a.gm.mask.w) (hr : r < h') (hc : c < w')
    (hidy : r + a.gm.mask.h / 2 = y + h' / 2) (hidx : c + a.gm.mask.w / 2 = x + w' / 2) :
    let P := Impl.arrayResizedFrom a h' w' mp zero
    P.gm.geom = a.gm.geom
    ∧ P.gm.mask.get r c = a.gm.mask.get y x
    ∧ P.native.getD (r * w' + c) zero = a.native.getD (y * a.gm.mask.w + x) zero
    ∧ Impl.pixelCentreY h' P.gm.geom.oy P.gm.geom.sy r
        = Impl.pixelCentreY a.gm.mask.h a.gm.geom.oy a.gm.geom.sy y
    ∧ Impl.pixelCentreX w' P.gm.geom.ox P.gm.geom.sx c
        = Impl.pixelCentreX a.gm.mask.w a.gm.geom.ox a.gm.geom.sx x := by
  intro P
  have ey : Spec.srcIndex (a.gm.mask.h / 2) h' r = (y : Int) := by unfold Spec.srcIndex; omega
  have ex : Spec.srcIndex (a.gm.mask.w / 2) w' c = (x : Int) := by unfold Spec.srcIndex; omega
  have hin : 0 ≤ (y : Int) ∧ (y : Int) < (a.gm.mask.h : Int) ∧ 0 ≤ (x : Int) ∧ (x : Int) < (a.gm.mask.w : Int) := by
    omega
  have hmask : (Impl.maskResizedFrom a.gm h' w' mp).mask.get r c = a.gm.mask.get y x := by
    rw [maskResized_get a.gm h' w' mp r c hr hc]
    unfold Spec.resizedAt
    simp only [ey, ex, hin, and_self, if_true, Int.toNat_natCast]
    exact bits_getD_eq_get a.gm.mask hwf.1 y x hy hx
  refine ⟨rfl, hmask, ?_, ?_, ?_⟩
  · show (Impl.arrayResizedFrom a h' w' mp zero).native.getD (r * w' + c) zero = _
    rw [arrayResized_native_getD a h' w' mp zero r c hr hc, hmask]
    unfold Spec.resizedAt
    simp only [ey, ex, hin, and_self, if_true, Int.toNat_natCast]
    by_cases hm : a.gm.mask.get y x = true
    · simp only [hm, if_true]
      exact (Arr.WF.zero_at_masked hwf y x hy hx hm).symm
    · simp only [hm]
      rfl
  · exact coordinate_kept_y a.gm.mask.h h' y r a.gm.geom.oy a.gm.geom.sy hsy h1 h1' hpy hidy
  · exact coordinate_kept_x a.gm.mask.w w' x c a.gm.geom.ox a.gm.geom.sx hsx w1 w1' hpx hidx

/-- (d4) PSF padding (`padded_before_convolution_from` for an odd kernel, mask pad value 1 as used
    by the automatic padding): the slim values and the slim grid of pixel-centre coordinates of the
    padded array are those of the original array, entry by entry in the same order; the geometry
    (pixel scales, origin) is unchanged.  Hence the (coordinate, value) pairs of the unmasked
    pixels are unchanged. -/
theorem padding_keeps_triples (a : Impl.Arr F) (zero : F) (kh kw : Nat) (hkh : kh % 2 = 1)
    (hkw : kw % 2 = 1) (hwf : a.WF zero) (hh : 1 ≤ a.gm.mask.h) (hw : 1 ≤ a.gm.mask.w)
    (hsy : a.gm.geom.sy ≠ 0) (hsx : a.gm.geom.sx ≠ 0) :
    let P := Impl.paddedBeforeConvolution a kh kw true zero
    P.gm.geom = a.gm.geom
    ∧ Impl.slimFrom P.gm.mask P.native zero = Impl.slimFrom a.gm.mask a.native zero
    ∧ Impl.gridSlimViaMask P.gm.mask P.gm.geom = Impl.gridSlimViaMask a.gm.mask a.gm.geom := by
  obtain ⟨cy, rfl⟩ : ∃ cy, kh = 2 * cy + 1 := ⟨kh / 2, by omega⟩
  obtain ⟨cx, rfl⟩ : ∃ cx, kw = 2 * cx + 1 := ⟨kw / 2, by omega⟩
  intro P
  have hP : P = Impl.arrayResizedFrom a (a.gm.mask.h + 2 * cy) (a.gm.mask.w + 2 * cx) true zero := by
    show Impl.paddedBeforeConvolution a _ _ true zero = _
    unfold Impl.paddedBeforeConvolution
    simp only [Nat.add_sub_cancel]
  rw [hP]
  exact ⟨rfl, slim_padded a zero hwf cy cx, grid_padded a zero hwf cy cx a.gm.geom hsy hsx hh hw⟩

/-- (d5) `Imaging.apply_mask(mask)` with an odd PSF: whether or not the automatic padding fires
    (`blurring_from` raising), the data values, the noise values and the pixel-centre coordinates
    of the unmasked pixels — in slim order — are exactly those of the unpadded masked dataset;
    data and noise map end up on the same mask with the mask's pixel scales and origin. -/
theorem apply_mask_keeps_triples (data noise : List F) (gm : Impl.GMask F) (kh kw : Nat) (zero : F)
    (hkh : kh % 2 = 1) (hkw : kw % 2 = 1) (hwf : gm.mask.WF) (hh : 1 ≤ gm.mask.h) (hw : 1 ≤ gm.mask.w)
    (hsy : gm.geom.sy ≠ 0) (hsx : gm.geom.sx ≠ 0) :
    let r := Impl.imagingApplyMask data noise gm kh kw zero
    r.1.gm = r.2.gm ∧ r.1.gm.geom = gm.geom
    ∧ Impl.slimFrom r.1.gm.mask r.1.native zero = Impl.slimFrom gm.mask (Impl.applyMask gm.mask data zero) zero
    ∧ Impl.slimFrom r.2.gm.mask r.2.native zero = Impl.slimFrom gm.mask (Impl.applyMask gm.mask noise zero) zero
    ∧ Impl.gridSlimViaMask r.1.gm.mask r.1.gm.geom = Impl.gridSlimViaMask gm.mask gm.geom := by
  intro r
  have hd := arrayWithMask_WF data gm zero hwf
  have hn := arrayWithMask_WF noise gm zero hwf
  by_cases hfit : Impl.blurringFits gm.mask kh kw = true
  · have hr : r = (Impl.arrayWithMask data gm zero, Impl.arrayWithMask noise gm zero) := by
      show Impl.imagingApplyMask data noise gm kh kw zero = _
      unfold Impl.imagingApplyMask
      simp only [hfit, if_true]
    rw [hr]
    exact ⟨rfl, rfl, rfl, rfl, rfl⟩
  · have hr : r = (Impl.paddedBeforeConvolution (Impl.arrayWithMask data gm zero) kh kw true zero,
        Impl.paddedBeforeConvolution (Impl.arrayWithMask noise gm zero) kh kw true zero) := by
      show Impl.imagingApplyMask data noise gm kh kw zero = _
      unfold Impl.imagingApplyMask
      simp only [hfit]
      rfl
    rw [hr]
    obtain ⟨d1, d2, d3⟩ := padding_keeps_triples (Impl.arrayWithMask data gm zero) zero kh kw hkh hkw hd
      hh hw hsy hsx
    obtain ⟨_, n2, _⟩ := padding_keeps_triples (Impl.arrayWithMask noise gm zero) zero kh kw hkh hkw hn
      hh hw hsy hsx
    exact ⟨rfl, d1, d2, n2, d3⟩

end Coordinates

/-! ### clause (e): zooming -/

/-- (e) for every unmasked pixel `(y,x)` of the array's mask and every buffer ≥ 0: `zoom_region`
    exists, the zoom window `[y0−b, y1+b) × [x0−b, x1+b)` contains `(y,x)`, the zoomed array has the
    window's shape, and at the pixel's position inside the window it carries the pixel's native
    value. -/
theorem zoom_contains_unmasked (a : Impl.Arr α) (zero : α) (buffer : Int) (hb : 0 ≤ buffer) (y x : Nat)
    (hy : y < a.gm.mask.h) (hx : x < a.gm.mask.w) (hm : a.gm.mask.get y x = false) :
    ∃ y0 y1 x0 x1 zh zw vals,
      Impl.zoomRegion a.gm.mask = some (y0, y1, x0, x1)
      ∧ Impl.zoomedAroundMask a buffer zero = some (zh, zw, vals)
      ∧ y0 - buffer ≤ (y : Int) ∧ (y : Int) < y1 + buffer
      ∧ x0 - buffer ≤ (x : Int) ∧ (x : Int) < x1 + buffer
      ∧ (zh : Int) = y1 + buffer - (y0 - buffer) ∧ (zw : Int) = x1 + buffer - (x0 - buffer)
      ∧ vals.length = zh * zw
      ∧ vals.getD (((y : Int) - (y0 - buffer)).toNat * zw + ((x : Int) - (x0 - buffer)).toNat) zero
          = a.native.getD (y * a.gm.mask.w + x) zero :=
  zoomed_contains a zero buffer hb y x hy hx hm

/-! ### non-vacuity -/

/-- concrete instances: 2×3 → 4×4 (even/odd mix), back again; a 3×3 array with an unmasked corner
    padded for a 3×3 kernel and trimmed; the automatic padding fires; zoom region of a non-square
    mask; every hypothesis used above (`WF`, odd kernels, non-zero scales) is met. -/
example :
    Impl.resizedArray2d [1, 2, 3, 4, 5, 6] 2 3 4 4 none 9 0
      = [9, 9, 9, 9, 9, 1, 2, 3, 9, 4, 5, 6, 9, 9, 9, 9]
    ∧ Impl.resizedArray2d [9, 9, 9, 9, 9, 1, 2, 3, 9, 4, 5, 6, 9, 9, 9, 9] 4 4 2 3 none 7 0
      = [1, 2, 3, 4, 5, 6]
    ∧ Impl.resizedArray2d [1, 2, 3, 4, 5, 6] 2 3 1 2 none 9 0 = [4, 5]
    ∧ Impl.zoomRegion ⟨3, 4, [true, false, true, true, true, true, true, true, true, true, false, true]⟩
      = some (0, 3, 1, 3)
    ∧ Impl.blurringFits ⟨3, 3, [false, true, true, true, true, true, true, true, true]⟩ 3 3 = false
    ∧ Impl.blurringFits ⟨3, 3, [true, true, true, true, false, true, true, true, true]⟩ 3 3 = true := by
  decide

example :
    let a : Impl.Arr Rat :=
      ⟨⟨⟨2, 2, [false, true, true, false]⟩, ⟨1 / 2, 2, 1 / 4, -1⟩⟩, [5, 0, 0, 7], false⟩
    a.WF 0 ∧ a.gm.geom.sy ≠ 0 ∧ a.gm.geom.sx ≠ 0
    ∧ (Impl.paddedBeforeConvolution a 3 5 true 0).gm.mask
        = ⟨4, 6, [true, true, true, true, true, true,
                  true, true, false, true, true, true,
                  true, true, true, false, true, true,
                  true, true, true, true, true, true]⟩
    ∧ Impl.slimFrom (Impl.paddedBeforeConvolution a 3 5 true 0).gm.mask
        (Impl.paddedBeforeConvolution a 3 5 true 0).native 0 = [5, 7]
    ∧ Impl.gridSlimViaMask a.gm.mask a.gm.geom = [(1 / 2, -2), (0, 0)]
    ∧ Impl.gridSlimViaMask (Impl.paddedBeforeConvolution a 3 5 true 0).gm.mask a.gm.geom
        = [(1 / 2, -2), (0, 0)] := by
  refine ⟨⟨by decide, by decide, by decide +kernel⟩, by decide +kernel, by decide +kernel,
    by decide +kernel, by decide +kernel, ?_, ?_⟩ <;> decide +kernel

/-- the coordinate theorems apply to the number type the driver executes (`Rat` is a field of
    characteristic zero): `padding_keeps_triples` instantiated at ℚ on the array above. -/
example :
    let a : Impl.Arr Rat :=
      ⟨⟨⟨2, 2, [false, true, true, false]⟩, ⟨1 / 2, 2, 1 / 4, -1⟩⟩, [5, 0, 0, 7], false⟩
    Impl.slimFrom (Impl.paddedBeforeConvolution a 3 5 true 0).gm.mask
        (Impl.paddedBeforeConvolution a 3 5 true 0).native 0 = Impl.slimFrom a.gm.mask a.native 0
    ∧ Impl.gridSlimViaMask (Impl.paddedBeforeConvolution a 3 5 true 0).gm.mask
        (Impl.paddedBeforeConvolution a 3 5 true 0).gm.geom = Impl.gridSlimViaMask a.gm.mask a.gm.geom := by
  intro a
  have h := padding_keeps_triples (F := Rat) a 0 3 5 (by decide) (by decide)
    ⟨by decide, by decide, by decide +kernel⟩ (by decide) (by decide) (by decide +kernel)
    (by decide +kernel)
  exact ⟨h.2.1, h.2.2⟩

/-- successive masks, concretely: a 3×3 dataset masked to one pixel, then to a disjoint pixel, then
    to both — the last result equals the single application (3×3 PSF, so the padding fires). -/
example :
    let d0 : List Int := [1, 2, 3, 4, 5, 6, 7, 8, 9]
    let n0 : List Int := [11, 12, 13, 14, 15, 16, 17, 18, 19]
    let g : Impl.Geom Int := ⟨1, 1, 0, 0⟩
    let mA : Impl.GMask Int := ⟨⟨3, 3, [true, true, true, true, true, true, false, true, true]⟩, g⟩
    let mB : Impl.GMask Int := ⟨⟨3, 3, [true, true, true, true, true, true, true, false, true]⟩, g⟩
    let mC : Impl.GMask Int := ⟨⟨3, 3, [true, true, true, true, true, true, false, false, true]⟩, g⟩
    (Impl.imagingApplyMasks (Impl.imagingInit d0 n0 3 3 g) [mA, mB, mC] 3 3 0).map
        (fun s => (Impl.slimFrom s.data.gm.mask s.data.native 0, Impl.slimFrom s.noise.gm.mask s.noise.native 0))
      = some ([7, 8], [17, 18]) := by
  decide

end C14
