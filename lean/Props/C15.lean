/-
Props/C15.lean — property C15 (preload transparency).  (under construction: full clause list follows)
-/
import Model.Preload
import Proofs.Preload

open Model Model.Preload

namespace C15

/-- (c0) the factory never selects the w-tilde formalism when the settings switch it off or when every
    linear object is a func list, whatever `Preloads.use_w_tilde` says. -/
theorem factory_respects_settings {α : Type} (c : Cfg α) (pu : Option Bool)
    (h : c.settingsUseWTilde = false ∨ c.allFuncLists = true) : useWTilde c pu = false := by
  unfold useWTilde
  rcases h with h | h <;> simp [h]

end C15
