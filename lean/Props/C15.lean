/-
Props/C15.lean — property C15: preloaded and cached intermediate results never change inversion
outputs.

The statements are about `Model.Preload.Impl` — the heap machine that transliterates which preload
slot short-circuits which computation and which numpy arrays are aliased, copied or written in place
(Model/Preload.lean) — under `Policy.repaired`, i.e. the code with the two C15 repairs (fixes/D151,
fixes/D152).  They hold for every element type `α` with an addition and a zero, every `Cfg` (object mix,
regularizations, settings), every choice of the numerical kernels `Ext`, every `Preloads` object (each of
the eleven slots filled or empty: all 2¹¹ configurations), every heap, every history (any number of
inversions, each with any sequence of reads).

Clauses (DESIGN §5 C15):
  r   `impl_refines_spec`, `cached_history_refines_spec`, `without_cache_deletion_stale`
                                              what every read returns (refinement Impl = Spec), also
                                              through the cached_property layer
  a   `slot_transparency`, `slot_transparency_values`,
      `preloads_taken_from_an_inversion_are_transparent`
  b   `history_preloads_unchanged`, `history_outputs_identical`, `outputs_independent_of_history`,
      `curvature_matrix_is_own_array`
  b'  `no_defensive_copy_breaks`, `snapshot_writes_into_preloaded_arrays`,
      `snapshot_mapping_data_vector_wrong`   (the model sees the failures the property is about)
  c   `factory_respects_settings`, `formalisms_agree_on_all_outputs`, `formalism_choice_no_value`,
      `preloads_and_formalism_transparent`

NOT proved here (see design_notes/C15.md): that the Python really aliases / copies as the heap machine
says (observed per run by byte fingerprints, DESIGN §4), and the equalities between the numerical
routes (`Routes`, `FormalismsAgree`: property C04), which are hypotheses.
-/
import Model.Preload
import Proofs.Preload
import Proofs.PreloadCache

open Model Model.Preload Model.Preload.Heap

namespace C15

variable {α : Type} [Add α] [OfNat α 0]

/-- (r) Refinement.  A history of inversions sharing one `Preloads` object `p`, started in any heap in
    which `p`'s arrays live, reports exactly the Spec values of `p`'s *initial* contents: the k-th
    inversion's reads are `Spec.inversion` of those contents, whatever was read before. -/
theorem impl_refines_spec (c : Cfg α) (E : Ext α) (p : Preloads α) (h : Heap α)
    (hp : p.Below h.size) (hist : List (List Access)) :
    (Impl.history c E Policy.repaired p hist h).2 = hist.map (Spec.inversion c E (contents h p)) :=
  (history_spec c E p hist h hp).2

/-- (b1) No inversion of any history changes any array that existed before it — in particular the
    preloaded curvature matrix and every other preloaded array keep their contents. -/
theorem history_preloads_unchanged (c : Cfg α) (E : Ext α) (p : Preloads α) (h : Heap α)
    (hp : p.Below h.size) (hist : List (List Access)) :
    (∀ r, r < h.size → (Impl.history c E Policy.repaired p hist h).1.read r = h.read r)
    ∧ contents (Impl.history c E Policy.repaired p hist h).1 p = contents h p := by
  have hx := (history_spec c E p hist h hp).1
  exact ⟨hx.2, contents_ext hx hp⟩

/-- (b2) k successive inversions with the same reads give the identical outcome every time: each of
    the k results equals the result of a single inversion on the initial heap. -/
theorem history_outputs_identical (c : Cfg α) (E : Ext α) (p : Preloads α) (h : Heap α)
    (hp : p.Below h.size) (accs : List Access) (k : Nat) :
    (Impl.history c E Policy.repaired p (List.replicate k accs) h).2
      = List.replicate k (Impl.inversion c E Policy.repaired p accs h).2 := by
  rw [impl_refines_spec c E p h hp, (inversion_spec c E p accs h hp).2]
  simp

/-- (b3) What an inversion reports does not depend on the inversions that used the `Preloads` object
    before it. -/
theorem outputs_independent_of_history (c : Cfg α) (E : Ext α) (p : Preloads α) (h : Heap α)
    (hp : p.Below h.size) (before : List (List Access)) (accs : List Access) :
    (Impl.inversion c E Policy.repaired p accs
        (Impl.history c E Policy.repaired p before h).1).2
      = (Impl.inversion c E Policy.repaired p accs h).2 := by
  have hx := (history_spec c E p before h hp).1
  rw [(inversion_spec c E p accs _ (hp.mono hx.1)).2, (inversion_spec c E p accs h hp).2,
    contents_ext hx hp]

/-- (b-inv) The invariant behind (b): the array `curvature_matrix` hands to `curvature_reg_matrix`
    (which adds the regularization matrix INTO it) is always one the inversion allocated itself —
    never the preloaded array, nor any other array that existed before. -/
theorem curvature_matrix_is_own_array (c : Cfg α) (E : Ext α) (w : Bool) (p : Preloads α)
    (h : Heap α) (hp : p.Below h.size) :
    h.size ≤ (Impl.curvatureMatrix c E Policy.repaired w p h).2
    ∧ (∀ r, some r ∈ p.arrays → r ≠ (Impl.curvatureMatrix c E Policy.repaired w p h).2) := by
  have hf := (curvatureMatrix_good c E p w).2 h hp
  refine ⟨hf, fun r hr heq => ?_⟩
  have hlt := hp.lt hr
  rw [heq] at hlt
  exact absurd hlt (Nat.not_lt.mpr hf)

/-- (r-cache) The same holds read through the `cached_property` layer (arrays memoised per inversion
    object, `curvature_reg_matrix` adding into the cached `curvature_matrix` array and deleting its
    cache entry): every history reports the Spec values, exactly what the uncached accessors report,
    and no array that existed before is changed. -/
theorem cached_history_refines_spec (c : Cfg α) (E : Ext α) (p : Preloads α) (h : Heap α)
    (hp : p.Below h.size) (hist : List (List Access)) :
    (Impl.historyCached c E Policy.repaired true p hist h).2
        = hist.map (Spec.inversion c E (contents h p))
    ∧ (Impl.historyCached c E Policy.repaired true p hist h).2
        = (Impl.history c E Policy.repaired p hist h).2
    ∧ (∀ r, r < h.size → (Impl.historyCached c E Policy.repaired true p hist h).1.read r = h.read r) := by
  have hc := historyCached_spec c E p hist h hp
  exact ⟨hc.2, by rw [hc.2, impl_refines_spec c E p h hp], hc.1.2⟩

/-- (a, values) If every filled slot holds what the preload-free computation would produce, every
    reported quantity — operated mapping matrix, data vector, curvature, regularization and
    curvature-regularization matrices, reconstruction, mapped data, the three evidence terms — equals
    its preload-free value.  `s` is arbitrary: every subset of slots.  `Routes` = the alternative
    computation routes behind `data_linear_func_matrix_dict` / `mapper_operated_mapping_matrix_dict`
    / the mapper data vector agree (C04). -/
theorem slot_transparency_values (c : Cfg α) (E : Ext α) (w : Bool) (s : Slots α)
    (hs : Consistent c E w s) (hr : Routes c E) (a : Access) :
    Spec.output c E w s a = Spec.output c E w {} a :=
  tr_output hs hr a

/-- (a) Slot transparency of the code: a history run with consistent preloads reports, inversion by
    inversion and read by read, what the same history reports with no array preloaded (same
    `use_w_tilde` flag, hence same formalism). -/
theorem slot_transparency (c : Cfg α) (E : Ext α) (p : Preloads α) (h : Heap α)
    (hp : p.Below h.size)
    (hs : Consistent c E (useWTilde c p.useWTilde) (contents h p)) (hr : Routes c E)
    (hist : List (List Access)) :
    (Impl.history c E Policy.repaired p hist h).2
      = (Impl.history c E Policy.repaired { useWTilde := p.useWTilde } hist h).2 := by
  rw [impl_refines_spec c E p h hp, impl_refines_spec c E _ h (belowEmpty _ _), contentsEmpty]
  apply List.map_congr_left
  intro accs _
  exact tr_inversion hs hr accs

/-- (a-use) The hypothesis of (a) is what the code's own outputs satisfy: a `Preloads` object whose
    `operated_mapping_matrix`, `curvature_matrix`, `regularization_matrix` ARE the (cached) arrays of a
    preload-free inversion object — after any reads of that object — is consistent, so every later
    history sharing it reports what it reports without preloads and leaves those arrays alone. -/
theorem preloads_taken_from_an_inversion_are_transparent (c : Cfg α) (E : Ext α) (h0 : Heap α)
    (reads : List Access) (hr : Routes c E) (hist : List (List Access)) :
    let st := (Impl.readAllCached c E Policy.repaired true (useWTilde c none) {} reads
      { heap := h0, cache := fun _ => none }).1
    (preloadsOf st).Below st.heap.size
    ∧ (Impl.history c E Policy.repaired (preloadsOf st) hist st.heap).2
        = (Impl.history c E Policy.repaired {} hist st.heap).2
    ∧ (∀ r, r < st.heap.size →
        (Impl.history c E Policy.repaired (preloadsOf st) hist st.heap).1.read r = st.heap.read r) := by
  intro st
  obtain ⟨hb, hs⟩ := preloadsOf_consistent c E (useWTilde c none) h0 st (cinv_after_reads c E h0 reads)
  exact ⟨hb, slot_transparency c E (preloadsOf st) st.heap hb hs hr hist,
    (history_preloads_unchanged c E (preloadsOf st) st.heap hb hist).1⟩

omit [Add α] [OfNat α 0] in
/-- (c0) The factory never selects the w-tilde formalism when the settings switch it off or when
    every linear object is a func list, whatever `Preloads.use_w_tilde` says; otherwise the preload
    flag, when given, overrides the setting. -/
theorem factory_respects_settings (c : Cfg α) (pu : Option Bool) :
    (c.settingsUseWTilde = false ∨ c.allFuncLists = true → useWTilde c pu = false)
    ∧ (c.settingsUseWTilde = true → c.allFuncLists = false →
        useWTilde c pu = pu.getD true) := by
  constructor
  · intro h
    unfold useWTilde
    rcases h with h | h <;> simp [h]
  · intro h1 h2
    unfold useWTilde
    cases pu <;> simp [h1, h2]

/-- (c1) If the two formalisms agree on the data vector, the curvature matrix and the mapping of a
    reconstruction back to the data (property C04), they agree on every reported quantity. -/
theorem formalisms_agree_on_all_outputs (c : Cfg α) (E : Ext α) (hA : FormalismsAgree c E)
    (a : Access) : Spec.output c E true {} a = Spec.output c E false {} a :=
  fa_output hA a

/-- (c2) The factory's choice changes no value: whatever `settings.use_w_tilde` is, a preload-free
    inversion reports the values of the mapping formalism. -/
theorem formalism_choice_no_value (c : Cfg α) (E : Ext α) (hA : FormalismsAgree c E) (b : Bool)
    (accs : List Access) :
    Spec.inversion { c with settingsUseWTilde := b } E {} accs
      = some (accs.map (Spec.output c E false {})) := by
  unfold Spec.inversion
  simp only [wt_empty, hA.check, Bool.not_true, Bool.and_false, Bool.false_eq_true, ↓reduceIte]
  congr 1
  apply List.map_congr_left
  intro a _
  rw [output_settings_irrelevant]
  cases useWTilde { c with settingsUseWTilde := b } (none : Option Bool)
  · rfl
  · exact fa_output hA a

/-- (a + c) Preloads and formalism together: with consistent slots — consistent for the formalism the
    factory actually runs — a history reports what it reports with NO Preloads at all, even when
    `Preloads.use_w_tilde` makes the factory pick the other formalism. -/
theorem preloads_and_formalism_transparent (c : Cfg α) (E : Ext α) (p : Preloads α) (h : Heap α)
    (hp : p.Below h.size)
    (hs : Consistent c E (useWTilde c p.useWTilde) (contents h p)) (hr : Routes c E)
    (hA : FormalismsAgree c E) (hist : List (List Access)) :
    (Impl.history c E Policy.repaired p hist h).2
      = (Impl.history c E Policy.repaired {} hist h).2 := by
  rw [impl_refines_spec c E p h hp, impl_refines_spec c E _ h (belowEmpty _ _), contentsEmpty]
  apply List.map_congr_left
  intro accs _
  rw [tr_inversion hs hr accs]
  exact fa_inversion hA _ accs

/-! ### witnesses: the model exhibits the failures the property is about -/

/-- toy kernels over `Int` (any functions would do; these keep the arrays recognisable) -/
def toyExt : Ext Int where
  lfCompute := [1]
  momdCompute := [2]
  dlfOfLf := fun l => l.map (· + 10)
  ommPlain := [3, 4]
  ommOfLf := fun l => l ++ [3, 4]
  dvOfOmm := fun o => o.map (· * 2)
  curvOfOmm := fun o => o.map (· * 3)
  mappedMapping := fun _ s => s.map (· + 1)
  dvmMapping := [6, 0]
  wtCompute := [5]
  wtCheck := fun w => w == [5]
  dvW := [6, 0]
  dvFuncEntries := fun _ => [(1, 8)]
  diagOfWT := fun w => w ++ w
  offDiagWrites := fun _ => []
  funcOffViaDlf := fun _ => [(1, 9)]
  funcOffViaMomd := fun _ _ => [(1, 9)]
  funcOffDefault := fun _ => [(1, 9)]
  funcDiagWrites := fun _ => []
  mirror := fun b => b
  mappedW := fun _ s => s.map (· + 1)
  regCompute := [1, 1]
  reduce := fun m => m
  reduceVec := fun v => v
  logDetReg := fun m => m.sum
  solve := fun f d => List.zipWith (· - ·) d f
  regTerm := fun m s => (List.zipWith (· * ·) m s).sum
  logDetCurvReg := fun m => m.sum

/-- one mapper with a regularization, mapping formalism -/
def toyCfg : Cfg Int :=
  { settingsUseWTilde := false, allFuncLists := false, hasFuncList := false, nMappers := 1,
    nObjs := 1, hasReg := true, allReg := true, funcOverride := false, noRegIdx := [],
    diagValue := 0, dim := 2 }

/-- mapper + func list (no regularization on the func list) -/
def toyCfgFunc (w : Bool) : Cfg Int :=
  { settingsUseWTilde := w, allFuncLists := false, hasFuncList := true, nMappers := 1,
    nObjs := 2, hasReg := true, allReg := false, funcOverride := false, noRegIdx := [1],
    diagValue := 1, dim := 1 }

/-- (b') Without the defensive `copy.copy(preloads.curvature_matrix)` the invariant fails: on the
    single-regularization path the second inversion finds F+H where it expects F — the preloaded
    buffer is changed and the two outcomes differ. -/
theorem no_defensive_copy_breaks :
    let p : Preloads Int := { curvatureMatrix := some 0 }
    let h : Heap Int := ⟨[[9, 12]]⟩
    let run := Impl.history toyCfg toyExt Policy.noCurvatureCopy p
      [[Access.curvatureRegMatrix], [Access.curvatureRegMatrix]] h
    p.Below h.size
    ∧ run.1.read 0 = [11, 14] ∧ h.read 0 = [9, 12]
    ∧ run.2 = [some [[10, 13]], some [[11, 14]]]
    ∧ (Impl.history toyCfg toyExt Policy.repaired p
        [[Access.curvatureRegMatrix], [Access.curvatureRegMatrix]] h).2
        = [some [[10, 13]], some [[10, 13]]] := by
  decide

/-- (b'') The code as first read (`Policy.snapshot`, before repair D152): in the w-tilde formalism
    with a linear func list the func-list entries are written INTO the preloaded
    `data_vector_mapper`, and the func-list blocks into the preloaded `curvature_matrix_mapper_diag`;
    the repaired code leaves both alone. -/
theorem snapshot_writes_into_preloaded_arrays :
    let p : Preloads Int := { dataVectorMapper := some 0, curvatureMatrixMapperDiag := some 1 }
    let h : Heap Int := ⟨[[6, 0], [5, 0, 0, 5]]⟩
    let reads := [[Access.dataVector, Access.curvatureMatrix]]
    p.Below h.size
    ∧ (Impl.history (toyCfgFunc true) toyExt Policy.snapshot p reads h).1.bufs.take 2
        = [[6, 8], [5, 9, 0, 5]]
    ∧ (Impl.history (toyCfgFunc true) toyExt Policy.repaired p reads h).1.bufs.take 2
        = [[6, 0], [5, 0, 0, 5]]
    ∧ (Impl.history (toyCfgFunc true) toyExt Policy.snapshot p reads h).2
        = (Impl.history (toyCfgFunc true) toyExt Policy.repaired p reads h).2 := by
  decide

/-- (a') The code as first read (before repair D151): in the mapping formalism with a linear func
    list a preloaded `data_vector_mapper` — zeros at the func-list entries — is returned as THE data
    vector, which differs from the preload-free data vector; the repaired code computes it. -/
theorem snapshot_mapping_data_vector_wrong :
    let p : Preloads Int := { dataVectorMapper := some 0 }
    let h : Heap Int := ⟨[[6, 0]]⟩
    p.Below h.size
    ∧ (Impl.history (toyCfgFunc false) toyExt Policy.snapshot p [[Access.dataVector]] h).2
        = [some [[6, 0]]]
    ∧ (Impl.history (toyCfgFunc false) toyExt Policy.repaired p [[Access.dataVector]] h).2
        = [some [[6, 8]]]
    ∧ (Impl.history (toyCfgFunc false) toyExt Policy.repaired {} [[Access.dataVector]] h).2
        = [some [[6, 8]]] := by
  decide

/-- (r-cache') Without `del self.__dict__["curvature_matrix"]` the cache would hand out the array that
    now holds F + H as the curvature matrix: the model sees why the line is there. -/
theorem without_cache_deletion_stale :
    let h : Heap Int := ⟨[]⟩
    let reads := [Access.curvatureMatrix, Access.curvatureRegMatrix, Access.curvatureMatrix]
    (Impl.historyCached toyCfg toyExt Policy.repaired true {} [reads] h).2
        = [some [[9, 12], [10, 13], [9, 12]]]
    ∧ (Impl.historyCached toyCfg toyExt Policy.repaired false {} [reads] h).2
        = [some [[9, 12], [10, 13], [10, 13]]] := by
  decide

/-- (outside the property, recorded) The one aliasing hazard that remains is on the PRODUCING side:
    a Preloads that stores the cached `curvature_matrix` array of an inversion object which has not yet
    read its `curvature_reg_matrix` is overwritten with F + H when that object does so — the inversion
    that *produced* the preload changes it, not one that uses it.  (`preloads.py` sets its slots from
    fully evaluated fits, where this cannot happen.) -/
theorem preload_taken_before_evaluation_is_overwritten_by_its_source :
    let st := (Impl.readAllCached toyCfg toyExt Policy.repaired true false {}
      [Access.curvatureMatrix] { heap := ⟨[]⟩, cache := fun _ => none }).1
    let st' := (Impl.readAllCached toyCfg toyExt Policy.repaired true false {}
      [Access.curvatureRegMatrix] st).1
    (preloadsOf st).curvatureMatrix = some 1
    ∧ st.heap.read 1 = [9, 12] ∧ st'.heap.read 1 = [10, 13] := by
  decide

/-! ### non-vacuity: the hypotheses of (a), (c) are satisfiable with several slots filled -/

/-- slots filled with what `toyExt` computes for `toyCfg` in the mapping formalism -/
def toySlots : Slots Int :=
  { operatedMappingMatrix := some [3, 4], curvatureMatrix := some [9, 12],
    regularizationMatrix := some [1, 1], logDetRegularizationMatrixTerm := some 2,
    dataVectorMapper := some [6, 0], wTilde := some [5] }

example : Consistent toyCfg { toyExt with dvmMapping := [6, 8] } false
    { toySlots with dataVectorMapper := some [6, 8] } := by
  constructor <;> intro v hv <;> simp [toySlots] at hv <;> subst hv <;> decide

example : Routes toyCfg { toyExt with dvmMapping := [6, 8] } := by
  constructor
  · decide
  · decide
  · intro _; decide

/-- a kernel record on which the two formalisms agree (diagonal of the w-tilde table = Fᵀ F of the
    mapping formalism, etc.) -/
def toyExtAgree : Ext Int :=
  { toyExt with dvW := [6, 8], dvmMapping := [6, 8], diagOfWT := fun _ => [9, 12] }

example : FormalismsAgree toyCfg toyExtAgree := by
  constructor
  · decide
  · decide
  · intro l s; rfl
  · decide

/-- and the conclusion is a non-trivial statement there: a history with four slots filled and the
    flag forcing the w-tilde formalism reports the values of the preload-free mapping inversion. -/
example :
    let p : Preloads Int :=
      { curvatureMatrix := some 0, regularizationMatrix := some 1, wTilde := some 2,
        useWTilde := some true, logDetRegularizationMatrixTerm := some 2 }
    let h : Heap Int := ⟨[[9, 12], [1, 1], [5]]⟩
    let c : Cfg Int := { toyCfg with settingsUseWTilde := true }
    let reads := [Access.curvatureRegMatrix, Access.reconstruction, Access.dataVector,
      Access.logDetRegularizationMatrixTerm]
    (Impl.history c toyExtAgree Policy.repaired p [reads, reads] h).2
      = (Impl.history { c with settingsUseWTilde := false } toyExtAgree Policy.repaired {}
          [reads, reads] h).2
    ∧ (Impl.history c toyExtAgree Policy.repaired p [reads] h).2
      = [some [[10, 13], [-4, -5], [6, 8], [2]]] := by
  decide

end C15
