/-
Props/C16.lean — property C16: FITS output followed by input reproduces values, orientation and pixel
scale.  The theorems are about the Impl layer of Model/Fits.lean (transliterations of the writers,
the readers and of `numpy_array_*_to_fits`), for every shape, mask, value list, pixel-scale pair, flip
setting, HDU index and filesystem state.  astropy and the operating system enter only through the
contracts stated in Model/Fits.lean ("an HDU / a file holds what was written"; `FS`), which the
correspondence run exercises and nothing here proves.
-/
import Model.Fits
import Proofs.Fits
import Proofs.FitsFS
import Proofs.FitsHistory

open Model Model.Fits

namespace C16

/-- (flip) the DS9 flip is an involution: the flip applied on output is undone on input, for either
    setting of the option, on 2-D and on 1-D data -/
theorem flip_undone (flip : Bool) (d : Data α) : flipIf flip (flipIf flip d) = d :=
  flipIf_flipIf flip d

/-- (flip') what is written really is flipped when the option is on, and untouched when it is off:
    row `y` of the HDU data of an `h`-row array is row `h-1-y` of the array. -/
theorem output_is_flipped (rows : List (List α)) (hdr : List (String × α)) :
    (hduForOutput2d true rows hdr).data = .d2 rows.reverse
    ∧ (hduForOutput2d false rows hdr).data = .d2 rows := by
  simp [hduForOutput2d, flipIf, flipud]

/-- (header) the pixel scales written to the header are the ones read back, isotropic or not (2-D),
    and in 1-D -/
theorem scales_header_roundtrip [DecidableEq α] (sy sx s zero : α) :
    scales2dFromHeader (pixelScaleHeader [sy, sx] zero) = some (sy, sx)
    ∧ scales1dFromHeader (pixelScaleHeader [s] zero) = some s :=
  ⟨scales2d_roundtrip sy sx zero, scales1d_roundtrip s zero⟩

/-- (array, HDU route) `Array2D.from_primary_hdu(a.hdu_for_output)` for an array (or kernel) on any
    mask, with any values, pixel scales and flip setting: an unmasked array of the same shape whose
    native values are exactly `a.native` and whose pixel scales are `a`'s. -/
theorem array2d_hdu_roundtrip [DecidableEq α] (flip : Bool) (m : Mask) (slim : List α) (sc : α × α)
    (zero : α) (hh : 0 < m.h) :
    ∃ r, array2dFromHdu flip (array2dHdu flip m slim sc zero) zero = some r
      ∧ r.mask = allFalse m.h m.w ∧ r.scales = sc
      ∧ r.native zero = some (Impl.nativeFrom m slim zero) :=
  array2dFromHdu_hduForOutput2d flip m.h m.w _ sc zero hh (nativeFrom_length m slim zero)

/-- (array, file route, any HDU index) if HDU `k` of a file is the HDU written for the array, then
    `from_fits(path, pixel_scales, hdu=k)` returns an unmasked array of the same shape and native
    values (with the caller's pixel scales), and the header objects attached carry the cards that
    encode the array's own pixel scales. -/
theorem array2d_file_roundtrip [DecidableEq α] (flip : Bool) (file : File α) (k : Nat) (m : Mask)
    (slim : List α) (sc user : α × α) (zero : α) (hh : 0 < m.h)
    (hk : file[k]? = some (array2dHdu flip m slim sc zero)) :
    (∃ r, array2dFromFits flip file k user zero = some r
      ∧ r.mask = allFalse m.h m.w ∧ r.scales = user
      ∧ r.native zero = some (Impl.nativeFrom m slim zero))
    ∧ (∀ h0, file[0]? = some h0 → ∃ hd, headersFromFits file k = some (h0.header, hd)
        ∧ scales2dFromHeader hd = some sc) := by
  constructor
  · exact array2dFromFits_hduForOutput2d flip file k m.h m.w _ _ user zero hh
      (nativeFrom_length m slim zero) hk
  · intro h0 hh0
    refine ⟨(array2dHdu flip m slim sc zero).header, by simp [headersFromFits, hh0, hk], ?_⟩
    simp [array2dHdu, hduForOutput2d, scales2d_roundtrip]

/-- (single-HDU file) the file `output_to_fits` writes is the one-HDU file of `hdu_for_output`, so
    the previous theorem applies with `k = 0` -/
theorem written_file_hdu0 (hdu : Hdu α) : (fileOf hdu)[0]? = some hdu := rfl

/-- (masked arrays) the native values written and read back are the slim values at their pixels and
    **zero at every masked pixel**, whatever the stored array held there. -/
theorem masked_pixels_read_zero (m : Mask) (slim : List α) (zero : α) :
    (∀ y x, y < m.h → x < m.w → m.get y x = true →
        (Impl.nativeFrom m slim zero)[y * m.w + x]? = some zero)
    ∧ (∀ k (hk : k < (Impl.nativeForSlim m).length),
        (Impl.nativeFrom m slim zero)[((Impl.nativeForSlim m)[k]).1 * m.w + ((Impl.nativeForSlim m)[k]).2]?
          = some (slim.getD k zero)) := by
  constructor
  · intro y x hy hx hm
    have hj : y * m.w + x < m.h * m.w := flat_lt (p := (y, x)) (mem_pixels.mpr ⟨hy, hx⟩)
    exact nativeFrom_masked m slim zero _ hj (by simpa [Mask.get] using hm)
  · intro k hk
    have hk' : k < (Spec.unmaskedPixels m).length := by rw [← nativeForSlim_eq]; exact hk
    have := nativeFrom_hit m slim zero k hk'
    simp only [nativeForSlim_eq]
    exact this

/-- (masked arrays held in native form) whatever the stored native array holds **under the mask** —
    after arithmetic on a native-stored array, or construction with `skip_mask=True` — the HDU written is
    that of the zero-filled native array (`applyMask`: the stored value at unmasked pixels, zero at
    masked ones), and reading it back returns exactly that. -/
theorem native_stored_written_zero_filled [DecidableEq α] (flip : Bool) (m : Mask) (an : List α)
    (sc : α × α) (zero : α) (hh : 0 < m.h) (han : an.length = m.h * m.w) :
    array2dHduStored flip m (.native an) sc zero
      = some (hduForOutput2d flip (toRows m.h m.w (Impl.applyMask m an zero))
          (pixelScaleHeader [sc.1, sc.2] zero))
    ∧ (∀ k, k < m.h * m.w → (Impl.applyMask m an zero)[k]?
        = some (if m.bits.getD k true then zero else an.getD k zero))
    ∧ ∃ r, (array2dHduStored flip m (.native an) sc zero).bind (fun h => array2dFromHdu flip h zero) = some r
        ∧ r.mask = allFalse m.h m.w ∧ r.scales = sc
        ∧ r.native zero = some (Impl.applyMask m an zero) := by
  have h1 : array2dHduStored flip m (.native an) sc zero
      = some (hduForOutput2d flip (toRows m.h m.w (Impl.applyMask m an zero))
          (pixelScaleHeader [sc.1, sc.2] zero)) := by
    simp [array2dHduStored, storedNativeRows, Impl.viewNative, Impl.convertArray2d,
      Impl.Stored.toInput, han]
  have hlen : (Impl.applyMask m an zero).length = m.h * m.w := by simp [Impl.applyMask]
  refine ⟨h1, ?_, ?_⟩
  · intro k hk
    simp [Impl.applyMask, hk]
  · obtain ⟨r, hr⟩ := array2dFromHdu_hduForOutput2d flip m.h m.w _ sc zero hh hlen
    exact ⟨r, by rw [h1]; exact hr.1, hr.2⟩

/-- (mask, HDU route) a mask written as floats and read back is the same mask — same shape, same
    booleans — with the same pixel scales, for either flip setting -/
theorem mask2d_hdu_roundtrip [DecidableEq α] (flip : Bool) (m : Mask) (sc : α × α) (zero one : α)
    (h10 : one ≠ zero) (hwf : m.WF) (hh : 0 < m.h) :
    mask2dFromHdu flip (mask2dHdu flip m sc zero one) zero = some (m, sc) := by
  obtain ⟨h', hh'⟩ : ∃ h', m.h = h' + 1 := ⟨m.h - 1, by omega⟩
  have hlen : (m.bits.map (boolToNum zero one)).length = m.h * m.w := by simpa [Mask.WF] using hwf
  have h1 : (toRows m.h m.w (m.bits.map (boolToNum zero one))).length = m.h := toRows_length _ _ _
  have h2 : ((toRows m.h m.w (m.bits.map (boolToNum zero one))).headD []).length = m.w := by
    rw [hh'] at hlen ⊢
    exact toRows_head_length h' m.w _ hlen
  have h3 := toRows_flatten m.h m.w _ hlen
  simp only [mask2dFromHdu, mask2dHdu, hduForOutput2d, flipIf_flipIf, scales2d_roundtrip, h1, h2, h3,
    map_numToBool_boolToNum zero one h10]

/-- (mask, file route) likewise through a file, from any HDU index, optionally inverted on input -/
theorem mask2d_file_roundtrip [DecidableEq α] (flip : Bool) (file : File α) (k : Nat) (m : Mask)
    (sc : α × α) (zero one : α) (invert : Bool) (h10 : one ≠ zero) (hwf : m.WF) (hh : 0 < m.h)
    (hk : file[k]? = some (mask2dHdu flip m sc zero one)) :
    mask2dFromFits flip file k invert zero
      = some ⟨m.h, m.w, if invert then m.bits.map (!·) else m.bits⟩ := by
  obtain ⟨h', hh'⟩ : ∃ h', m.h = h' + 1 := ⟨m.h - 1, by omega⟩
  have hlen : (m.bits.map (boolToNum zero one)).length = m.h * m.w := by simpa [Mask.WF] using hwf
  have h1 : (toRows m.h m.w (m.bits.map (boolToNum zero one))).length = m.h := toRows_length _ _ _
  have h2 : ((toRows m.h m.w (m.bits.map (boolToNum zero one))).headD []).length = m.w := by
    rw [hh'] at hlen ⊢
    exact toRows_head_length h' m.w _ hlen
  have h3 := toRows_flatten m.h m.w _ hlen
  simp only [mask2dFromFits, hk, mask2dHdu, hduForOutput2d, flipIf_flipIf, h1, h2, h3,
    map_numToBool_boolToNum zero one h10]

/-- (1-D arrays) written data are the native 1-D values (zeros at masked entries), never flipped —
    the flip option does not enter these functions at all — and both readers return them with the
    pixel scale written -/
theorem array1d_roundtrip [DecidableEq α] (mask : List Bool) (slim : List α) (scale zero : α) :
    array1dFromHdu (array1dHdu mask slim scale zero) = some (Impl.native1dFrom mask slim zero, scale)
    ∧ array1dFromFits (fileOf (array1dHdu mask slim scale zero)) 0
        = some (Impl.native1dFrom mask slim zero) := by
  simp [array1dFromHdu, array1dHdu, hduForOutput1d, scales1d_roundtrip, array1dFromFits, fileOf]

/-- (masked 1-D arrays held in native form; repair D31) whatever the stored native 1-D array holds under
    the mask, the HDU written holds the stored value at unmasked entries and **zero at masked entries**
    (for either flip setting — 1-D data are never flipped), and both readers return exactly that, with
    the pixel scale written. -/
theorem native_stored_1d_written_zero_filled [DecidableEq α] (mask : List Bool) (v : List α)
    (scale zero : α) :
    (array1dHduNativeStored mask v scale zero).data = .d1 (Impl.applyMask1d mask v zero)
    ∧ (Impl.applyMask1d mask v zero).length = mask.length
    ∧ (∀ k, k < mask.length → (Impl.applyMask1d mask v zero)[k]?
        = some (if mask.getD k true then zero else v.getD k zero))
    ∧ array1dFromHdu (array1dHduNativeStored mask v scale zero)
        = some (Impl.applyMask1d mask v zero, scale)
    ∧ array1dFromFits (fileOf (array1dHduNativeStored mask v scale zero)) 0
        = some (Impl.applyMask1d mask v zero) := by
  refine ⟨rfl, by simp [Impl.applyMask1d], ?_, ?_, ?_⟩
  · intro k hk
    simp [Impl.applyMask1d, hk]
  · simp [array1dFromHdu, array1dHduNativeStored, hduForOutput1d, scales1d_roundtrip]
  · simp [array1dFromFits, array1dHduNativeStored, hduForOutput1d, fileOf]

/-- (1-D masks) read back as the same booleans with the pixel scale written -/
theorem mask1d_roundtrip [DecidableEq α] (mask : List Bool) (scale zero one : α) (h10 : one ≠ zero) :
    mask1dFromHdu (mask1dHdu mask scale zero one) zero = some (mask, scale)
    ∧ mask1dFromFits (fileOf (mask1dHdu mask scale zero one)) 0 zero = some mask := by
  simp [mask1dFromHdu, mask1dHdu, hduForOutput1d, scales1d_roundtrip, mask1dFromFits, array1dFromFits,
    fileOf, map_numToBool_boolToNum zero one h10]

/-- (overwrite) for a target that names a file whose ancestors are not regular files:
    `output_to_fits(path, overwrite)` **fails iff the path exists and overwrite was not requested**
    (then with astropy's "already exists" error, the state unchanged); **otherwise** afterwards the
    path holds exactly the new content (no trace of the old), every other file is untouched, and the
    directories are the old ones plus all ancestors of the path (missing output directories created). -/
theorem output_overwrite_semantics (fs : FS γ) (p : Path) (ow : Bool) (c : γ)
    (ht : FS.Target fs p) (hc : FS.DirsClosed fs) :
    (fs.isFile p = true ∧ ow = false ∧ output fs p ow c = .error "exists_no_overwrite")
    ∨ ((fs.isFile p = false ∨ ow = true) ∧ ∃ fs', output fs p ow c = .ok fs'
        ∧ fs'.read p = some c
        ∧ fs'.files.filter (fun e => e.1 == p) = [(p, c)]
        ∧ (∀ q, q ≠ p → fs'.read q = fs.read q)
        ∧ (∀ d, fs'.isDir d = true ↔ (fs.isDir d = true ∨ d ∈ FS.prefixes p.dropLast))
        ∧ (p.dropLast = [] ∨ fs.isDir p.dropLast = true → fs'.dirs = fs.dirs)) :=
  FS.output_spec fs p ow c ht hc

/-- (error iff) corollary in the property's own words -/
theorem output_error_iff (fs : FS γ) (p : Path) (ow : Bool) (c : γ)
    (ht : FS.Target fs p) (hc : FS.DirsClosed fs) :
    (∃ e, output fs p ow c = .error e) ↔ (fs.isFile p = true ∧ ow = false) := by
  rcases FS.output_spec fs p ow c ht hc with ⟨h1, h2, h3⟩ | ⟨h1, fs', h2, _⟩
  · exact ⟨fun _ => ⟨h1, h2⟩, fun _ => ⟨_, h3⟩⟩
  · constructor
    · rintro ⟨e, he⟩; rw [h2] at he; cases he
    · rintro ⟨hf, ho⟩
      rcases h1 with h | h
      · rw [hf] at h; cases h
      · rw [ho] at h; cases h

/-- (bare file name) a path without directory component is written into the working directory: no
    directory is created, and the call succeeds exactly under the same overwrite rule -/
theorem bare_name_cwd (fs : FS γ) (name : String) (ow : Bool) (c : γ)
    (hnd : fs.isDir [name] = false) (hc : FS.DirsClosed fs) (hok : fs.isFile [name] = false ∨ ow = true) :
    ∃ fs', output fs [name] ow c = .ok fs' ∧ fs'.read [name] = some c ∧ fs'.dirs = fs.dirs := by
  have ht : FS.Target fs [name] := ⟨by simp, hnd, by simp [FS.prefixes]⟩
  rcases FS.output_spec fs [name] ow c ht hc with ⟨h1, h2, _⟩ | ⟨_, fs', h2, h3, _, _, _, h7⟩
  · rcases hok with h | h
    · rw [h1] at h; cases h
    · rw [h2] at h; cases h
  · exact ⟨fs', h2, h3, h7 (Or.inl rfl)⟩


/-- (write then read, end to end) `a.output_to_fits(path, overwrite)` followed by
    `Array2D.from_fits(path, pixel_scales, hdu=0)`, in any filesystem state where the call is allowed
    (target absent, or overwrite requested): the call succeeds, the path then holds the one-HDU file of
    `a.hdu_for_output`, and reading it returns `a`'s shape and native values — whatever was at the
    path before. -/
theorem output_to_fits_then_from_fits [DecidableEq α] (fs : FS (File α)) (p : Path) (ow flip : Bool)
    (m : Mask) (slim : List α) (sc user : α × α) (zero : α) (hh : 0 < m.h)
    (ht : FS.Target fs p) (hc : FS.DirsClosed fs) (hok : fs.isFile p = false ∨ ow = true) :
    ∃ fs' file, output fs p ow (fileOf (array2dHdu flip m slim sc zero)) = .ok fs'
      ∧ fs'.read p = some file
      ∧ ∃ r, array2dFromFits flip file 0 user zero = some r
          ∧ r.mask = allFalse m.h m.w ∧ r.scales = user
          ∧ r.native zero = some (Impl.nativeFrom m slim zero) := by
  rcases FS.output_spec fs p ow (fileOf (array2dHdu flip m slim sc zero)) ht hc with
    ⟨h1, h2, _⟩ | ⟨_, fs', h2, h3, _⟩
  · rcases hok with h | h
    · rw [h1] at h; cases h
    · rw [h2] at h; cases h
  · refine ⟨fs', _, h2, h3, ?_⟩
    exact (array2d_file_roundtrip flip _ 0 m slim sc user zero hh rfl).1

/-- (every history) for any finite sequence of `output_to_fits` calls whose targets come from a pool
    of compatible paths (each names a file; none is an ancestor directory of another), started in any
    state reachable that way: the outcome of every call and the content found afterwards at **every**
    path are those of the abstract semantics `specRun` — a call fails iff its path holds something and
    overwrite is off and then changes nothing; otherwise the path holds the new content, everything
    else is as before.  So the last successful write wins and stale content never survives. -/
theorem history_semantics {P : Path → Prop} (hP : PoolOK P) (steps : List (Path × Bool × γ))
    (fs : FS γ) (hi : Inv P fs) (hs : ∀ s ∈ steps, P s.1) :
    (outputs fs steps).1 = (specRun fs.read steps).1
    ∧ (∀ q, (outputs fs steps).2.read q = (specRun fs.read steps).2 q)
    ∧ Inv P (outputs fs steps).2 := by
  rw [outputs_eq_rec]
  exact outputsRec_spec hP steps fs hi hs

/-- the empty filesystem is a legitimate start of a history -/
theorem empty_fs_inv (P : Path → Prop) (hP : PoolOK P) : Inv P (⟨[], []⟩ : FS γ) := by
  refine ⟨?_, ?_, ?_⟩
  · intro d hd q hq
    have : d = [] := by simpa [FS.isDir] using hd
    subst this
    simp [FS.prefixes] at hq
  · intro q hq; simp [FS.isFile] at hq
  · intro d hd hPd
    have : d = [] := by simpa [FS.isDir] using hd
    exact hP.nonempty d hPd this

/-! ### non-vacuity -/

/-- a concrete masked, non-square, asymmetric array with anisotropic scales, flipped: the HDU holds the
    rows upside-down with zeros at the masked pixels, and reading restores shape, values and scales -/
example :
    let m : Mask := ⟨2, 3, [true, false, false, false, true, true]⟩
    let hdu := array2dHdu true m [(1 : Int), 2, 3] ((1 : Int), 2) 0
    hdu.data = .d2 [[3, 0, 0], [0, 1, 2]]
    ∧ hdu.header = [("PIXSCALEY", 1), ("PIXSCALEX", 2)]
    ∧ (array2dFromHdu true hdu 0).map (fun r => (r.mask.h, r.mask.w, r.scales, r.native 0))
        = some (2, 3, (1, 2), some [0, 1, 2, 3, 0, 0]) := by
  decide

/-- the hypotheses of the overwrite theorem are satisfiable, and both outcomes occur -/
example :
    let fs : FS Nat := ⟨[(["d", "x.fits"], 1)], [["d"]]⟩
    FS.Target fs ["d", "x.fits"] ∧ FS.DirsClosed fs
    ∧ (match output fs ["d", "x.fits"] false 2 with
        | .error e => e == "exists_no_overwrite" | .ok _ => false) = true
    ∧ (output fs ["d", "x.fits"] true 2).toOption.map (fun s => (s.files, s.dirs))
        = some ([(["d", "x.fits"], 2)], [["d"]])
    ∧ (output fs ["a", "b", "y.fits"] false 3).toOption.map (fun s => (s.files, s.dirs))
        = some ([(["a", "b", "y.fits"], 3), (["d", "x.fits"], 1)], [["d"], ["a"], ["a", "b"]])
    ∧ (output fs ["bare.fits"] false 4).toOption.map (fun s => (s.files, s.dirs))
        = some ([(["bare.fits"], 4), (["d", "x.fits"], 1)], [["d"]]) := by
  refine ⟨⟨by decide, by decide, by decide⟩, ?_, by decide, by decide, by decide, by decide⟩
  intro d hd q hq
  have : d = [] ∨ d = ["d"] := by simpa [FS.isDir] using hd
  rcases this with rfl | rfl
  · simp [FS.prefixes] at hq
  · simp [FS.prefixes] at hq; subst hq; decide

/-- a pool meeting `PoolOK`, and a concrete history through `outputs` -/
example :
    PoolOK (fun p => p = ["a.fits"] ∨ p = ["d", "b.fits"])
    ∧ ((outputs (⟨[], []⟩ : FS Nat)
          [(["a.fits"], false, 1), (["d", "b.fits"], false, 2), (["a.fits"], false, 3),
           (["a.fits"], true, 4)]).1
        = [none, none, some "exists_no_overwrite", none]) := by
  refine ⟨⟨?_, ?_⟩, by decide⟩
  · rintro p (rfl | rfl) <;> simp
  · rintro p q (rfl | rfl) (rfl | rfl) <;> simp [FS.prefixes]

end C16
