/-
Props/C16.lean — property C16 (FITS output followed by input).  Work in progress: first theorems.
-/
import Model.Fits
import Proofs.Fits

open Model Model.Fits

namespace C16

/-- the DS9 flip is an involution: the flip applied on output is undone on input, for either setting -/
theorem flip_undone (flip : Bool) (d : Data α) : flipIf flip (flipIf flip d) = d :=
  flipIf_flipIf flip d

end C16
