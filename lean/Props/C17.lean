/-
Props/C17.lean — property C17: grid decorators return containers mirroring the input grid, entry k for
point k.  Every theorem quantifies over **all** user functions `f` (a function from the coordinate
list to one value list or a Python list of them), all masks, coordinate lists, centres, angles and
radial minima; they are about the Impl layer of Model/Decorators.lean, whose containers are built by
the constructor model of property C01 (Model/Slim.lean).  libm enters through the contracts `TrigOK`
and `IsSqrt`, discharged for the real functions at the end.
-/
import Model.Decorators
import Model.DecoratorsConfig
import Proofs.Decorators
import Proofs.DecoratorsRadial
import Proofs.DecoratorsProjection

open Model Model.Dec

namespace C17

/-! ## (a) dispatch: the container mirrors the input grid -/

/-- Grid2D input, any decorator, any `f`: if `f` returns one value per coordinate, the result is the
    matching container **on the same mask** whose slim values are `f(grid)` un-permuted, and whose
    native view holds value k at the k-th unmasked pixel (row-major) and zero at masked pixels. -/
theorem dispatch_uniform (kind : Kind) (f : List (α × α) → Res (List β)) (proj : List α → List (α × α))
    (m : Mask) (pts : List (α × α)) (v : List β) (zero : β)
    (hf : f pts = .one v) (hv : v.length = Impl.totalPixels m) :
    result kind f proj (.uniform m pts) zero = some (.one (.uniform kind m (.slim v)))
    ∧ Impl.viewSlim m (.slim v) zero = some (.slim v)
    ∧ Impl.viewNative m (.slim v) zero = some (.native (Impl.nativeFrom m v zero))
    ∧ (∀ k (hk : k < (Impl.nativeForSlim m).length),
        (Impl.nativeFrom m v zero)[((Impl.nativeForSlim m)[k]).1 * m.w + ((Impl.nativeForSlim m)[k]).2]?
          = some (v.getD k zero))
    ∧ (∀ y x, y < m.h → x < m.w → m.get y x = true →
        (Impl.nativeFrom m v zero)[y * m.w + x]? = some zero) := by
  refine ⟨?_, viewSlim_slim m v zero hv, viewNative_slim m v zero hv, ?_, ?_⟩
  · simp [result, evaluateFunc, hf, wrapOne_uniform kind m pts v zero hv]
  · intro k hk
    have hk' : k < (Spec.unmaskedPixels m).length := by rw [← nativeForSlim_eq]; exact hk
    have := nativeFrom_hit m v zero k hk'
    simp only [nativeForSlim_eq]
    exact this
  · intro y x hy hx hm
    have hj : y * m.w + x < m.h * m.w := flat_lt (p := (y, x)) (mem_pixels.mpr ⟨hy, hx⟩)
    exact nativeFrom_masked m v zero _ hj (by simpa [Mask.get] using hm)

/-- … and a function returning any other number of entries is refused (the constructor raises):
    values can never be silently dropped, padded or shifted against the mask. -/
theorem dispatch_uniform_refuses (kind : Kind) (f : List (α × α) → Res (List β))
    (proj : List α → List (α × α)) (m : Mask) (pts : List (α × α)) (v : List β) (zero : β)
    (hf : f pts = .one v) (hv : v.length ≠ Impl.totalPixels m) :
    result kind f proj (.uniform m pts) zero = none := by
  simp [result, evaluateFunc, hf, wrapOne_uniform_bad kind m pts v zero hv]

/-- Grid2DIrregular input: the irregular counterpart holding exactly `f(grid)`, one entry per
    coordinate in input order. -/
theorem dispatch_irregular (kind : Kind) (f : List (α × α) → Res (List β))
    (proj : List α → List (α × α)) (pts : List (α × α)) (v : List β) (zero : β) (hf : f pts = .one v) :
    result kind f proj (.irregular pts) zero = some (.one (.irregular kind v)) := by
  simp [result, evaluateFunc, hf, wrapOne]

/-- Grid1D input: `f` is evaluated on the projected 2-D line `proj xs` (never on the 1-D values), and
    the values come back as an `Array1D` on the input's own 1-D mask (`to_array`), as a `Grid2D` on the
    1×n mask of the input (`to_grid`); `to_vector_yx` is unsupported. -/
theorem dispatch_oned (f : List (α × α) → Res (List β)) (proj : List α → List (α × α))
    (mask : List Bool) (xs : List α) (v : List β) (zero : β) (hf : f (proj xs) = .one v)
    (hv : v.length = unmasked1d mask) :
    result .array f proj (.oned mask xs) zero = some (.one (.oned mask v))
    ∧ result .grid f proj (.oned mask xs) zero
          = some (.one (.uniform .grid (toMask2d mask) (.slim v)))
    ∧ result .vector f proj (.oned mask xs) zero = none := by
  refine ⟨?_, ?_, ?_⟩
  · simp [result, evaluateFunc, hf, wrapOne, hv]
  · have hv2 : v.length = Impl.totalPixels (toMask2d mask) := by rw [totalPixels_toMask2d, hv]
    simp [result, evaluateFunc, hf, wrapOne, Impl.convertArray2d, hv2]
  · simp [result]

/-- list results are wrapped element by element, in order, each exactly as a single result would be
    (uniform, irregular and 1-D inputs). -/
theorem list_wrapped_elementwise (kind : Kind) (f : List (α × α) → Res (List β))
    (proj : List α → List (α × α)) (zero : β) (vs : List (List β)) :
    (∀ m pts, f pts = .many vs → (∀ v ∈ vs, v.length = Impl.totalPixels m) →
      result kind f proj (.uniform m pts) zero
        = some (.many (vs.map fun v => .uniform kind m (.slim v))))
    ∧ (∀ pts, f pts = .many vs →
      result kind f proj (.irregular pts) zero = some (.many (vs.map fun v => .irregular kind v)))
    ∧ (∀ mask xs, f (proj xs) = .many vs → (∀ v ∈ vs, v.length = unmasked1d mask) →
      result .array f proj (.oned mask xs) zero = some (.many (vs.map fun v => .oned mask v))) := by
  refine ⟨?_, ?_, ?_⟩
  · intro m pts hf hv
    simp [result, evaluateFunc, hf, mapM_wrapOne_uniform kind m pts vs zero hv]
  · intro pts hf
    simp [result, evaluateFunc, hf, mapM_wrapOne_irregular kind pts vs zero]
  · intro mask xs hf hv
    simp [result, evaluateFunc, hf, mapM_wrapOne_oned mask xs vs zero hv]

/-- entry k corresponds to coordinate k: for a pointwise function `f = map φ` on a masked uniform
    grid whose k-th coordinate belongs to the k-th unmasked pixel, slim entry k is `φ(coordinate k)`
    and it sits, in the native view, at the k-th unmasked pixel. -/
theorem pointwise_entry_k (kind : Kind) (φ : α × α → β) (proj : List α → List (α × α))
    (m : Mask) (pts : List (α × α)) (zero : β) (hp : pts.length = Impl.totalPixels m) :
    result kind (fun g => .one (g.map φ)) proj (.uniform m pts) zero
      = some (.one (.uniform kind m (.slim (pts.map φ))))
    ∧ ∀ k (hk : k < (Impl.nativeForSlim m).length) (hk' : k < pts.length),
        (Impl.nativeFrom m (pts.map φ) zero)[((Impl.nativeForSlim m)[k]).1 * m.w
            + ((Impl.nativeForSlim m)[k]).2]? = some (φ pts[k]) := by
  have hv : (pts.map φ).length = Impl.totalPixels m := by simpa using hp
  obtain ⟨h1, _, _, h4, _⟩ :=
    dispatch_uniform kind (fun g => .one (g.map φ)) proj m pts (pts.map φ) zero rfl hv
  refine ⟨h1, ?_⟩
  intro k hk hk'
  rw [h4 k hk]
  simp [hk']

/-! ## (b) the radially projected line -/

section projection
variable {α : Type} [Field α] [LinearOrder α] [IsStrictOrderedRing α]

/-- a `Grid1D` handed to `to_array` / `to_grid` reaches the function as the points `(0, x_k)`, in order -/
theorem projected_line_1d_plain {T : Trig α} {pi : α} (ok : TrigOK T pi) (xs : List α) :
    grid1dProjected T 0 xs = xs.map fun x => (0, x) := by
  rw [grid1dProjected_eq ok]
  simp [ok.radians_zero, ok.sin_zero, ok.cos_zero]

/-- a `Grid1D` handed to `project_grid` on a profile with angle φ reaches the function as
    `x_k · (−sin a, cos a)`, `a = radians(φ + 90)`: the x axis rotated clockwise by the profile's
    angle + 90°. -/
theorem projected_line_1d {T : Trig α} {pi : α} (ok : TrigOK T pi) [BEq α] (trunc : α → Nat)
    (ninety : α) (extent : α × α × α × α) (scales centre : α × α) (angle : α)
    (mask : List Bool) (xs : List α) :
    projectGridInput T trunc ninety extent scales centre angle (.oned mask xs)
      = xs.map fun x => (-(x * T.sin (T.radians (angle + ninety))),
                         x * T.cos (T.radians (angle + ninety))) := by
  simp [projectGridInput, grid1dProjected_eq ok]

/-- a `Grid2D` handed to `project_grid` reaches the function as the points
    `centre + k·s·(−sin a, cos a)`, k = 0,…,n−1 (`n = int(d/s) + 1`, d the longest axis distance from
    the centre to the edge of the grid's extent, s the pixel scale along it, `a = radians(φ + 90)`):
    `centre + (0, k·s)` rotated clockwise about the profile centre.  An irregular grid passes unchanged. -/
theorem projected_line_2d {T : Trig α} {pi : α} (ok : TrigOK T pi) [BEq α] (trunc : α → Nat)
    (ninety : α) (extent : α × α × α × α) (scales centre : α × α) (angle : α)
    (hs : 0 ≤ scales.1 ∧ 0 ≤ scales.2) (m : Mask) (pts : List (α × α)) :
    projectGridInput T trunc ninety extent scales centre angle (.uniform m pts)
      = (List.range (radialCount trunc extent centre scales)).map (fun (k : Nat) =>
          (centre.1 - (k : α) * radialStep extent centre scales * T.sin (T.radians (angle + ninety)),
           centre.2 + (k : α) * radialStep extent centre scales * T.cos (T.radians (angle + ninety))))
    ∧ projectGridInput T trunc ninety extent scales centre angle (.irregular pts) = pts := by
  exact ⟨grid2dProjected_eq ok trunc extent centre scales (angle + ninety) hs, rfl⟩

/-! ## (c) the radial minimum -/

omit [IsStrictOrderedRing α] in
/-- coordinates at or beyond the minimum reach the function unchanged (the very same value) -/
theorem relocate_outside_unchanged (sqrt : α → α) (half rmin : α) (p : α × α)
    (h : rmin ≤ radius sqrt p) :
    relocatePoint sqrt half rmin p (radius sqrt p) = p :=
  relocatePoint_outside sqrt half rmin p _ h

/-- coordinates strictly inside the minimum (not at the centre) are moved radially outward to exactly
    that minimum: the new point is `t·p` with `t = r_min/r > 1` (same ray), and its radius is `r_min`. -/
theorem relocate_inside {sqrt : α → α} (hs : IsSqrt sqrt) (half rmin : α) (p : α × α)
    (h0 : 0 < radius sqrt p) (hlt : radius sqrt p < rmin) :
    relocatePoint sqrt half rmin p (radius sqrt p)
        = (rmin / radius sqrt p * p.1, rmin / radius sqrt p * p.2)
    ∧ 1 < rmin / radius sqrt p
    ∧ radius sqrt (relocatePoint sqrt half rmin p (radius sqrt p)) = rmin :=
  relocatePoint_inside hs half rmin p h0 hlt

/-- a coordinate at the profile centre (radius 0: no ray) is moved to the diagonal point
    `(r_min·√½, r_min·√½)`, whose radius is exactly `r_min` (repair D14; before it the point was
    `(r_min, r_min)`, radius `√2·r_min`). -/
theorem relocate_centre {sqrt : α → α} (hs : IsSqrt sqrt) (half rmin : α) (p : α × α)
    (hhalf : half + half = 1) (hr : radius sqrt p = 0) (hrm : 0 < rmin) :
    relocatePoint sqrt half rmin p (radius sqrt p) = (rmin * sqrt half, rmin * sqrt half)
    ∧ radius sqrt (relocatePoint sqrt half rmin p (radius sqrt p)) = rmin :=
  relocatePoint_centre hs half rmin p _ hhalf (by rw [hr]; exact lt_irrefl 0) hrm

omit [IsStrictOrderedRing α] in
/-- the relocated grid has one coordinate per input coordinate, in the same order: coordinate k of the
    grid handed to the function is the relocation of coordinate k of the input. -/
theorem relocate_entry_k (sqrt : α → α) (half rmin : α) (pts : List (α × α)) :
    (relocate sqrt half rmin (radiiOf sqrt) pts).length = pts.length
    ∧ ∀ k (hk : k < pts.length),
        (relocate sqrt half rmin (radiiOf sqrt) pts)[k]?
          = some (relocatePoint sqrt half rmin pts[k] (radius sqrt pts[k])) :=
  ⟨relocate_length sqrt half rmin _ pts (by simp [radiiOf]),
   fun k hk => relocate_getElem sqrt half rmin pts k hk⟩

end projection

/-! ## (d) `transform` -/

/-- however many `transform`-decorated functions call one another (forwarding their keyword
    arguments), a grid that is not yet transformed is transformed exactly once and the innermost
    function is told so; an already transformed grid passes through untouched. -/
theorem transform_once (tr : γ → γ) (f : Bool → γ → δ) (n : Nat) (g : γ) :
    transformN tr f (n + 1) false g = f true (tr g)
    ∧ transformN tr f (n + 1) true g = f true g :=
  ⟨transformN_false tr f n g, transformN_true tr f (n + 1) g⟩

/-! ## the libm contracts are satisfiable: the real functions meet them -/

theorem contracts_hold_for_real_functions :
    TrigOK realTrig Real.pi ∧ IsSqrt Real.sqrt ∧ ((1 / 2 : ℝ) + 1 / 2 = 1) :=
  ⟨realTrig_ok, real_isSqrt, by norm_num⟩

/-! ## non-vacuity -/

/-- a 2×3 mask with a hole pattern, a non-symmetric pointwise function: the array container holds
    φ(coordinate k) at the k-th unmasked pixel and zeros elsewhere -/
example :
    let m : Mask := ⟨2, 3, [false, true, false, true, true, false]⟩
    let pts : List (Int × Int) := [(1, -1), (1, 1), (0, 1)]
    let f : List (Int × Int) → Res (List Int) := fun g => .one (g.map fun p => 2 * p.1 + p.2)
    result .array f (fun xs => xs.map fun x => (0, x)) (.uniform m pts) 0
        = some (.one (.uniform .array m (.slim [1, 3, 1])))
    ∧ Impl.nativeFrom m [1, 3, 1] (0 : Int) = [1, 0, 3, 0, 0, 1]
    ∧ result .array (fun g => .one ((g.map fun p => 2 * p.1 + p.2).take 2))
        (fun xs => xs.map fun x => (0, x)) (.uniform m pts) (0 : Int) = none := by
  decide

/-- relocation on exact rationals with the Pythagorean point (3/5, 4/5)·½: radius ½ < 1 -/
example :
    relocatePoint (fun (x : Rat) => if x = 1/4 then 1/2 else x) (1/2) 1 ((3/10 : Rat), 2/5) (1/2)
      = (3/5, 4/5) := by
  decide +kernel

/-! ## (e) configuration in force at call time (round 5/6 hardening)

`Grid2D.grid_2d_radial_projected_from` reads `general.grid.remove_projected_centre` when its keyword is
not given; `project_grid` never gives it.  (Model/DecoratorsConfig.lean.) -/

section config
variable {α : Type} [Add α] [Sub α] [Mul α] [Div α] [OfNat α 0] [LT α] [DecidableLT α] [BEq α]

/-- under `project_grid` a `Grid2D` reaches the function as the projected line of `projected_line_2d`
    when the configuration value is off and as that line without its first point (the centre) when it is
    on — whatever the value was at an earlier call; an irregular grid and a `Grid1D` never depend on it. -/
theorem projected_line_follows_config (T : Trig α) (trunc : α → Nat) (ninety : α)
    (extent : α × α × α × α) (scales centre : α × α) (angle : α) (m : Mask) (pts : List (α × α))
    (mask : List Bool) (xs : List α) :
    projectGridInputCfg T trunc ninety extent scales centre angle false (.uniform m pts)
        = projectGridInput T trunc ninety extent scales centre angle (.uniform m pts)
    ∧ projectGridInputCfg T trunc ninety extent scales centre angle true (.uniform m pts)
        = (projectGridInput T trunc ninety extent scales centre angle (.uniform m pts)).drop 1
    ∧ ∀ c, projectGridInputCfg T trunc ninety extent scales centre angle c (.irregular pts) = pts
        ∧ projectGridInputCfg T trunc ninety extent scales centre angle c (.oned mask xs)
            = projectGridInput T trunc ninety extent scales centre angle (.oned mask xs) := by
  refine ⟨?_, ?_, fun c => ⟨rfl, rfl⟩⟩ <;>
    simp [projectGridInputCfg, projectGridInput, grid2dProjectedCfg, dropCentre, removeFlag]

/-- the explicit keyword of `Grid2D.grid_2d_radial_projected_from` wins over the configuration value; without
    it the configuration value decides. -/
theorem explicit_flag_overrides_config (T : Trig α) (trunc : α → Nat) (extent : α × α × α × α)
    (centre scales : α × α) (angle : α) (b c : Bool) :
    grid2dProjectedCfg T trunc extent centre scales angle (some b) c
        = dropCentre b (grid2dProjected T trunc extent centre scales angle)
    ∧ grid2dProjectedCfg T trunc extent centre scales angle none c
        = dropCentre c (grid2dProjected T trunc extent centre scales angle) :=
  ⟨rfl, rfl⟩

end config

end C17
