/-
Props/C18.lean — property C18: border relocation only pulls outliers radially inward to the border.

All theorems are about the `Impl` layer of Model/Border.lean (the transliteration of
`relocated_grid_via_jit_from`, `BorderRelocator.relocated_grid_from / relocated_mesh_grid_from`,
`furthest_grid_2d_slim_index_from`, `sub_border_pixel_slim_indexes_from`), over ANY ordered field `α`
and ANY function `sqrt` satisfying the contract `SqrtSpec` (`0 ≤ sqrt x`, `sqrt x * sqrt x = x` for
`x ≥ 0`), which is discharged for `Real.sqrt` at the end.  Grids, borders and meshes are arbitrary
lists: no bound on sizes, no assumption on the shape of the border.

`radius sqrt o p` = `sqrt ((p.1-o.1)² + (p.2-o.2)²)`, `o = borderOrigin border` = the border centroid.
-/
import Model.Border
import Proofs.Border
import Proofs.BorderSub
import Proofs.BorderCentre
import Mathlib.Analysis.Real.Sqrt

open Model

namespace C18

variable {α : Type} [Field α] [LinearOrder α] [IsStrictOrderedRing α]

/-- the loop body applied to one coordinate, with the quantities the code precomputes. -/
abbrev relocate1 (sqrt : α → α) (border : List (α × α)) (p : α × α) : α × α :=
  Impl.relocatePoint sqrt (Impl.borderOrigin border) (Impl.borderRadii sqrt border)
    (Impl.minList (Impl.borderRadii sqrt border)) border p

/-- (c, "number and order preserved") the output has the input's length and its i-th entry is the
    rule applied to the i-th input (and to nothing else). -/
theorem c_length_order (sqrt : α → α) (grid border : List (α × α)) :
    (Impl.relocatedGrid sqrt grid border).length = grid.length
    ∧ ∀ i (hi : i < grid.length),
        (Impl.relocatedGrid sqrt grid border)[i]? = some (relocate1 sqrt border grid[i]) := by
  rw [relocatedGrid_eq_map]
  refine ⟨by simp, ?_⟩
  intro i hi
  simp [hi]

/-- (a) a coordinate whose distance from the border centroid does not exceed the smallest border
    radius comes out as the very same value (no arithmetic is applied to it). -/
theorem a_inside_unchanged (sqrt : α → α) (grid border : List (α × α)) (hb : border ≠ [])
    (i : Nat) (hi : i < grid.length)
    (hin : ∀ b ∈ border, radius sqrt (Impl.borderOrigin border) grid[i]
                          ≤ radius sqrt (Impl.borderOrigin border) b) :
    (Impl.relocatedGrid sqrt grid border)[i]? = some grid[i] := by
  rw [(c_length_order sqrt grid border).2 i hi]
  congr 1
  apply relocatePoint_inside
  intro hlt
  obtain ⟨b, hbm, hbl⟩ := (rmin_lt_iff hb _).mp hlt
  exact absurd hbl (not_lt.mpr (hin b hbm))

/-- (a) in squared form, free of `sqrt` in the hypothesis. -/
theorem a_inside_unchanged_sq (sqrt : α → α) (hs : SqrtSpec sqrt) (grid border : List (α × α))
    (hb : border ≠ []) (i : Nat) (hi : i < grid.length)
    (hin : ∀ b ∈ border, Impl.sqDist grid[i] (Impl.borderOrigin border)
                          ≤ Impl.sqDist b (Impl.borderOrigin border)) :
    (Impl.relocatedGrid sqrt grid border)[i]? = some grid[i] :=
  a_inside_unchanged sqrt grid border hb i hi fun b hbm =>
    hs.mono (sqDist_nonneg _ _) (hin b hbm)

/-- (b) the border point the code pairs a coordinate with is its nearest border point (the first
    one in border order among equidistant ones). -/
theorem b_nearest_border_point (border : List (α × α)) (hb : border ≠ []) (p : α × α) :
    ∃ b, border[nearestIdx border p]? = some b
      ∧ (∀ b' ∈ border, Impl.sqDist p b ≤ Impl.sqDist p b')
      ∧ ∀ j, j < nearestIdx border p → ∀ b', border[j]? = some b' →
          Impl.sqDist p b < Impl.sqDist p b' :=
  nearestIdx_spec hb p

/-- (b) any other coordinate (some border point is strictly closer to the centroid) is sent to
    `o + t·(p − o)` with `t = r_b/r_p` when that is `< 1` and `t = 1` otherwise, `b` its nearest border
    point: hence `0 ≤ t ≤ 1` (same ray, never outward), the new radius is `t·r_p ≤ r_p`, it equals
    `r_b` whenever the coordinate moves, and if it does not move then `r_p ≤ r_b`. -/
theorem b_moved_along_ray (sqrt : α → α) (hs : SqrtSpec sqrt) (grid border : List (α × α))
    (hb : border ≠ []) (i : Nat) (hi : i < grid.length)
    (hout : ∃ b ∈ border, radius sqrt (Impl.borderOrigin border) b
                          < radius sqrt (Impl.borderOrigin border) grid[i]) :
    let o := Impl.borderOrigin border
    let p := grid[i]
    let b := border.getD (nearestIdx border p) (0, 0)
    let t := moveFactor sqrt o border p
    let out := (t * (p.1 - o.1) + o.1, t * (p.2 - o.2) + o.2)
    (Impl.relocatedGrid sqrt grid border)[i]? = some out
    ∧ t = (if radius sqrt o b / radius sqrt o p < 1 then radius sqrt o b / radius sqrt o p else 1)
    ∧ 0 ≤ t ∧ t ≤ 1
    ∧ radius sqrt o out = t * radius sqrt o p
    ∧ radius sqrt o out ≤ radius sqrt o p
    ∧ (t < 1 → radius sqrt o out = radius sqrt o b)
    ∧ (¬ t < 1 → out = p ∧ radius sqrt o p ≤ radius sqrt o b)
    ∧ (0 < radius sqrt o b → 0 < t) := by
  intro o p b t out
  have hmin : Impl.minList (Impl.borderRadii sqrt border) < radius sqrt o p :=
    (rmin_lt_iff hb _).mpr hout
  have hp : 0 < radius sqrt o p := lt_of_le_of_lt (rmin_nonneg hs hb) hmin
  obtain ⟨h0, h1⟩ := moveFactor_bounds hs o border p hp
  obtain ⟨hA, hB⟩ := moveFactor_mul_radius (sqrt := sqrt) o border p hp
  have hray : radius sqrt o out = t * radius sqrt o p := radius_ray hs o p t h0
  refine ⟨?_, rfl, h0, h1, hray, ?_, ?_, ?_, ?_⟩
  · rw [(c_length_order sqrt grid border).2 i hi]
    congr 1
    exact relocatePoint_outside sqrt border hb p hmin
  · rw [hray]
    calc t * radius sqrt o p ≤ 1 * radius sqrt o p := mul_le_mul_of_nonneg_right h1 (le_of_lt hp)
      _ = radius sqrt o p := one_mul _
  · intro ht
    rw [hray]; exact hA ht
  · intro ht
    obtain ⟨e1, hle⟩ := hB ht
    refine ⟨?_, hle⟩
    show (t * (p.1 - o.1) + o.1, t * (p.2 - o.2) + o.2) = p
    have e1' : t = 1 := e1
    rw [e1']
    ext <;> simp
  · intro hbpos
    show 0 < moveFactor sqrt o border p
    unfold moveFactor
    simp only
    split
    · exact div_pos hbpos hp
    · exact zero_lt_one

/-- (c) no output lies farther from the centroid than the farthest border point. -/
theorem c_within_max_radius (sqrt : α → α) (hs : SqrtSpec sqrt) (grid border : List (α × α))
    (hb : border ≠ []) :
    ∀ q ∈ Impl.relocatedGrid sqrt grid border,
      radius sqrt (Impl.borderOrigin border) q ≤ Impl.maxList (Impl.borderRadii sqrt border)
      ∧ ∃ b ∈ border, radius sqrt (Impl.borderOrigin border) q
                        ≤ radius sqrt (Impl.borderOrigin border) b := by
  intro q hq
  rw [relocatedGrid_eq_map] at hq
  obtain ⟨p, _, rfl⟩ := List.mem_map.mp hq
  have h := relocatePoint_radius_le hs border hb p
  refine ⟨h, ?_⟩
  obtain ⟨b, hbm, hbr⟩ := mem_borderRadii.mp (maxList_mem (borderRadii_ne_nil (sqrt := sqrt) hb))
  exact ⟨b, hbm, by rw [hbr]; exact h⟩

/-- (c) `BorderRelocator.relocated_grid_from` uses the grid's own entries at the sub-border indices
    as border; `relocated_mesh_grid_from` applies the same rule to the mesh vertices with the border
    taken from the DATA grid (not from the mesh). -/
theorem c_mesh_uses_data_border (sqrt : α → α) (sb : List Nat) (grid mesh : List (α × α))
    (hsb : sb ≠ []) :
    Impl.relocatedGridFrom sqrt sb grid = grid.map (relocate1 sqrt (Impl.gather grid sb))
    ∧ Impl.relocatedMeshGridFrom sqrt sb grid mesh
        = mesh.map (relocate1 sqrt (Impl.gather grid sb)) := by
  have : sb.isEmpty = false := by cases sb <;> simp_all
  simp [Impl.relocatedGridFrom, Impl.relocatedMeshGridFrom, this, relocatedGrid_eq_map]

/-- (c) border points are fixed points of the relocation, so relocating the mesh against the
    already relocated data grid (what the triangulation meshes do) is the same as against the
    original data grid. -/
theorem c_border_fixed_and_chained (sqrt : α → α) (hs : SqrtSpec sqrt) (sb : List Nat)
    (grid mesh : List (α × α)) (hidx : ∀ k ∈ sb, k < grid.length) :
    (∀ p ∈ Impl.gather grid sb, relocate1 sqrt (Impl.gather grid sb) p = p)
    ∧ Impl.relocatedMeshGridFrom sqrt sb (Impl.relocatedGridFrom sqrt sb grid) mesh
        = Impl.relocatedMeshGridFrom sqrt sb grid mesh := by
  have hfix : ∀ p ∈ Impl.gather grid sb, relocate1 sqrt (Impl.gather grid sb) p = p :=
    fun p hp => relocatePoint_fixed_of_mem hs _ p hp
  refine ⟨hfix, ?_⟩
  by_cases hsb : sb = []
  · subst hsb; simp [Impl.relocatedMeshGridFrom]
  · have hg : Impl.gather (Impl.relocatedGridFrom sqrt sb grid) sb = Impl.gather grid sb := by
      rw [(c_mesh_uses_data_border sqrt sb grid mesh hsb).1]
      unfold Impl.gather
      apply List.map_congr_left
      intro k hk
      have hk' := hidx k hk
      simp only [List.getD_eq_getElem?_getD, List.getElem?_map, List.getElem?_eq_getElem hk',
        Option.map_some, Option.getD_some]
      apply hfix
      exact List.mem_map.mpr ⟨k, hk, by simp [List.getD_eq_getElem?_getD, hk']⟩
    have : sb.isEmpty = false := by cases sb <;> simp_all
    simp only [Impl.relocatedMeshGridFrom, this]
    rw [hg]

/-- (d) `furthest_grid_2d_slim_index_from`: among the candidate sub-pixel indices it returns one that
    maximises the squared distance to the centre, and the LAST such in candidate order (`>=`). -/
theorem d_furthest_last_maximiser (g : List (α × α)) (c : α × α) (idxs : List Nat) (h : idxs ≠ []) :
    ∃ k a b, idxs = a ++ k :: b ∧ Impl.furthest g idxs c = some k
      ∧ (∀ j ∈ idxs, Impl.furthestDist g c j ≤ Impl.furthestDist g c k)
      ∧ ∀ j ∈ b, Impl.furthestDist g c j < Impl.furthestDist g c k :=
  furthest_spec g c idxs h

/-- (d) the candidate list of slim pixel `b` is exactly the block of its own sub-pixels,
    `[off_b, off_b + s_b²)` with `off_b = Σ_{j<b} s_j²`, in increasing order. -/
theorem d_candidates_are_own_sub_pixels (m : Mask) (sub : List Nat)
    (hsub : sub.length = Impl.totalPixels m) (b : Nat) (hb : b < sub.length) :
    (Impl.subSlimIndexesForSlimIndex m sub sub.length).getD b []
      = (List.range (sub[b] * sub[b])).map (· + subOffset sub b) :=
  subSlimIndexes_getD m sub hsub b hb

/-- (d) assembled: for every border pixel `b` with positive sub-size, the entry of `sub_border_slim`
    is a sub-pixel of `b` at maximal squared distance (in pixel units: unit scales, zero origin) from the
    centre of the bounding box of the over-sampled grid, the last such in sub-pixel order. -/
theorem d_sub_border_slim (m : Mask) (sub : List Nat) (hsub : sub.length = Impl.totalPixels m)
    (borderPixels : List Nat) (i : Nat) (hi : i < borderPixels.length)
    (hb : borderPixels[i] < sub.length) (hpos : 0 < sub[borderPixels[i]]) :
    let g : List (α × α) := Impl.subGrid m (1, 1) (0, 0) sub
    let c := Impl.gridCentre g
    let off := subOffset sub borderPixels[i]
    let s := sub[borderPixels[i]]
    ∃ k, (Impl.subBorderSlim (α := α) m sub sub.length borderPixels)[i]? = some (some k)
      ∧ off ≤ k ∧ k < off + s * s
      ∧ (∀ j, off ≤ j → j < off + s * s → Impl.furthestDist g c j ≤ Impl.furthestDist g c k)
      ∧ ∀ j, k < j → j < off + s * s → Impl.furthestDist g c j < Impl.furthestDist g c k := by
  intro g c off s
  have hcand := subSlimIndexes_getD m sub hsub borderPixels[i] hb
  have hne : (List.range (s * s)).map (· + off) ≠ [] := by
    have : 0 < s * s := Nat.mul_pos hpos hpos
    intro h
    have := congrArg List.length h
    simp at this
    omega
  obtain ⟨k, a, b, hsplit, hk, hmax, hlast⟩ := furthest_spec g c _ hne
  refine ⟨k, ?_, ?_⟩
  · simp only [Impl.subBorderSlim, List.getElem?_map, List.getElem?_eq_getElem hi, Option.map_some]
    rw [hcand, hk]
  · have hmem : ∀ j, j ∈ (List.range (s * s)).map (· + off) ↔ off ≤ j ∧ j < off + s * s := by
      intro j
      simp only [List.mem_map, List.mem_range]
      constructor
      · rintro ⟨t, ht, rfl⟩; omega
      · rintro ⟨h1, h2⟩; exact ⟨j - off, by omega, by omega⟩
    have hkm : k ∈ (List.range (s * s)).map (· + off) := by rw [hsplit]; simp
    obtain ⟨hk1, hk2⟩ := (hmem k).mp hkm
    refine ⟨hk1, hk2, fun j h1 h2 => hmax j ((hmem j).mpr ⟨h1, h2⟩), ?_⟩
    intro j hkj hj
    apply hlast
    -- elements after position of k in an increasing list are exactly the larger ones
    have hsorted : ((List.range (s * s)).map (· + off)).Pairwise (· < ·) := by
      rw [List.pairwise_map]
      exact List.Pairwise.imp (by intro a b h; omega) List.pairwise_lt_range
    rw [hsplit] at hsorted
    have hjm : j ∈ a ++ k :: b := by rw [← hsplit]; exact (hmem j).mpr ⟨by omega, hj⟩
    rcases List.mem_append.mp hjm with hja | hjb
    · have := (List.pairwise_append.mp hsorted).2.2 j hja k List.mem_cons_self
      omega
    · rcases List.mem_cons.mp hjb with rfl | hjb
      · omega
      · exact hjb

/-- (d, as the property words it) let `[ylo,yhi]×[xlo,xhi]` be the bounding box of the unmasked
    region.  For every border pixel `b` the entry of `sub_border_slim` is a sub-pixel of `b` whose
    distance — in pixel units — from the CENTRE OF THAT BOUNDING BOX is maximal among the sub-pixels of
    `b`, for every (also non-uniform) positive sub-size map.  (`g` is the over-sampled grid with unit
    pixel scales: row `r` has `y = (H−1)/2 − r`, column `c` has `x = c − (W−1)/2`; `cR` is the region
    centre `((ylo+yhi)/2, (xlo+xhi)/2)` in that frame.  The code itself measures to the centre of the
    bounding box of `g`, which for non-uniform sub-sizes is a different point, less than a quarter pixel
    away; `farthest_from_region_centre` shows the maximisers agree.) -/
theorem d_sub_border_farthest_from_region_centre (m : Mask) (sub : List Nat)
    (hsub : sub.length = Impl.totalPixels m) (hpos : ∀ b, b < sub.length → 0 < sub.getD b 0)
    (ylo yhi xlo xhi : Nat) (hbox : IsBBox m ylo yhi xlo xhi)
    (borderPixels : List Nat) (i : Nat) (hi : i < borderPixels.length)
    (hb : borderPixels[i] < sub.length) :
    let g : List (α × α) := Impl.subGrid m (1, 1) (0, 0) sub
    let cR : α × α := (((m.h : α) - 1) / 2 - ((ylo : α) + (yhi : α)) / 2,
                       ((xlo : α) + (xhi : α)) / 2 - ((m.w : α) - 1) / 2)
    let off := subOffset sub borderPixels[i]
    let s := sub[borderPixels[i]]
    ∃ k, (Impl.subBorderSlim (α := α) m sub sub.length borderPixels)[i]? = some (some k)
      ∧ off ≤ k ∧ k < off + s * s
      ∧ ∀ j, off ≤ j → j < off + s * s → Impl.furthestDist g cR j ≤ Impl.furthestDist g cR k := by
  intro g cR off s
  have hsd : sub.getD borderPixels[i] 0 = s := by
    simp [s, List.getD_eq_getElem?_getD, hb]
  have hs : 0 < s := by rw [← hsd]; exact hpos _ hb
  obtain ⟨k, hk, hk1, hk2, hmax, _⟩ := d_sub_border_slim (α := α) m sub hsub borderPixels i hi hb hs
  refine ⟨k, hk, hk1, hk2, ?_⟩
  have hU : sub.length = (Spec.unmaskedPixels m).length := by rw [hsub, totalPixels_eq]
  have hg : g = unitGrid m (((m.h : α) - 1) / 2) (((m.w : α) - 1) / 2) sub := subGrid_unit_eq m sub
  have := farthest_from_region_centre m sub hU hpos (((m.h : α) - 1) / 2) (((m.w : α) - 1) / 2)
    ylo yhi xlo xhi hbox borderPixels[i] hb k hk1 (by rw [hsd]; exact hk2)
    (by
      intro j h1 h2
      rw [hsd] at h2
      have := hmax j h1 h2
      rw [← hg]
      exact this)
  intro j h1 h2
  have := this j h1 (by rw [hsd]; exact h2)
  rw [← hg] at this
  exact this

/-! ### the `sqrt` contract is satisfiable: `Real.sqrt` meets it, so every theorem above holds for
the real-number reading of the code. -/
theorem sqrtSpec_real : SqrtSpec Real.sqrt :=
  fun x hx => ⟨Real.sqrt_nonneg x, Real.mul_self_sqrt hx⟩

/-- the real-number instance of (c), as a sanity check that the hypotheses compose. -/
theorem c_within_max_radius_real (grid border : List (ℝ × ℝ)) (hb : border ≠ []) :
    ∀ q ∈ Impl.relocatedGrid Real.sqrt grid border,
      radius Real.sqrt (Impl.borderOrigin border) q
        ≤ Impl.maxList (Impl.borderRadii Real.sqrt border) :=
  fun q hq => (c_within_max_radius Real.sqrt sqrtSpec_real grid border hb q hq).1

/-! ### non-vacuity: a concrete instance over `ℚ` with the exact square root on the perfect squares
that occur (3-4-5 geometry).  Border = the four points (±3, ±4)… -/

/-- a `sqrt` on ℚ that is exact on the values used below. -/
def sqrtQ (x : ℚ) : ℚ := if x = 25 then 5 else if x = 100 then 10 else if x = 4 then 2 else 0

example :
    let border : List (ℚ × ℚ) := [(3, 4), (-3, 4), (-3, -4), (3, -4)]
    Impl.borderOrigin border = (0, 0)
    ∧ Impl.borderRadii sqrtQ border = [5, 5, 5, 5]
    -- (6,8) is outside (radius 10 > 5): pulled to radius 5 on its ray; (0,2) is inside: untouched
    ∧ Impl.relocatedGrid sqrtQ [(6, 8), (0, 2), (3, 4)] border = [(3, 4), (0, 2), (3, 4)] := by
  decide +kernel

example :
    let g : List (ℚ × ℚ) := [(1, 0), (0, 0), (0, 2), (2, 0)]
    Impl.furthest g [0, 1, 2, 3] (0, 0) = some 3 ∧ Impl.furthestTies g [0, 1, 2, 3] (0, 0) = [2, 3] := by
  decide +kernel

/-- a 3×4 frame with the unmasked row `(1,0),(1,1),(1,2)`, sub-sizes 1, 2, 4 (non-uniform). -/
def exMask : Mask := ⟨3, 4, [true, true, true, true, false, false, false, true, true, true, true, true]⟩

example : IsBBox exMask 1 1 0 2 := ⟨by decide, by decide, by decide, by decide, by decide⟩

/-- the hypotheses of `d_sub_border_farthest_from_region_centre` are met, the code's centre (bounding
    box of the over-sampled grid) really differs from the region centre here, and the selected
    sub-pixels are the expected far corners. -/
example :
    [1, 2, 4].length = Impl.totalPixels exMask
    ∧ Impl.gridCentre (Impl.subGrid (α := ℚ) exMask (1, 1) (0, 0) [1, 2, 4]) = (0, -5/16)
    ∧ ((((3 : ℚ) - 1) / 2 - ((1 : ℚ) + 1) / 2, ((0 : ℚ) + 2) / 2 - ((4 : ℚ) - 1) / 2) : ℚ × ℚ) = (0, -1/2)
    ∧ Impl.subBorderSlim (α := ℚ) exMask [1, 2, 4] 3 [0, 1, 2] = [some 0, some 3, some 20] := by
  refine ⟨by decide, by decide +kernel, by norm_num, by decide +kernel⟩

end C18
