/- Props/C19.lean — placeholder while the proofs are being written. -/
import Model.Layout

open Model

namespace C19

theorem placeholder : (1 : Nat) = 1 := rfl

end C19
