/-
Props/C19.lean — property C19: layout regions rotate and extract consistently with the arrays they
index.  All theorems quantify over every array shape, every array content (element type `α`
arbitrary), every valid region inside the array, all four read-out corners, every extraction window
and every pixel range (unbounded integers).  They are stated about the `Impl` layer of
Model/Layout.lean (the transliteration of autoarray/layout/{layout_util,region}.py), which is what
the driver executes against the Python.

A 2-D array is its list of rows; "shape h×w" = `a.length = h` and every row has length `w`.
`Spec.R2.Inside r h w` = `0 ≤ y0 < y1 ≤ h ∧ 0 ≤ x0 < x1 ≤ w`.
-/
import Model.Layout
import Proofs.Layout
import Proofs.LayoutGlue

open Model

namespace C19

/-! ### clause (a): rotation of region and array commute; rotating twice restores both -/

/-- (a1) for each of the four corners, a valid region inside the array is accepted by
    `rotate_region_via_roe_corner_from`, the rotated region is again a valid region inside the
    array, and it slices from the rotated array exactly the rotated content of the original region
    (the same flips, restricted to the window). -/
theorem rotate_commutes_with_slice (c : Corner) (a : List (List α)) (h w : Nat) (r : R2)
    (ha : a.length = h) (hrows : ∀ row ∈ a, row.length = w) (hr : Spec.R2.Inside r h w) :
    ∃ r', Impl.rotateRegion r h w c = some r' ∧ Spec.R2.Inside r' h w
      ∧ Impl.slice2d r' (Impl.rotateArray c a) = Impl.rotateArray c (Impl.slice2d r a) :=
  rotate_commutes c a h w r ha hrows hr

/-- (a2) applying the same rotation twice restores the array (any array, any corner). -/
theorem rotateArray_twice (c : Corner) (a : List (List α)) :
    Impl.rotateArray c (Impl.rotateArray c a) = a :=
  Model.rotateArray_twice c a

/-- (a3) applying the same rotation twice restores the region. -/
theorem rotateRegion_twice (c : Corner) (h w : Nat) (r : R2) (hr : Spec.R2.Inside r h w) :
    (Impl.rotateRegion r h w c).bind (fun r' => Impl.rotateRegion r' h w c) = some r := by
  rw [rotateRegion_of_inside hr c, Option.bind_some,
    rotateRegion_of_inside (reflect_inside hr c) c, reflect_reflect]

/-- (a4) the rotated region is given by reflecting the corners the corner's flips reverse. -/
theorem rotateRegion_inside (c : Corner) (h w : Nat) (r : R2) (hr : Spec.R2.Inside r h w) :
    Impl.rotateRegion r h w c = some
      (match c with
       | .c10 => r
       | .c00 => ⟨(h : Int) - r.y1, (h : Int) - r.y0, r.x0, r.x1⟩
       | .c11 => ⟨r.y0, r.y1, (w : Int) - r.x1, (w : Int) - r.x0⟩
       | .c01 => ⟨(h : Int) - r.y1, (h : Int) - r.y0, (w : Int) - r.x1, (w : Int) - r.x0⟩) := by
  rw [rotateRegion_of_inside hr c]; cases c <;> rfl

/-! ### clause (b): the region after extraction is the overlap, in window coordinates -/

/-- (b1) 1-D: for non-empty intervals, `x0x1_after_extraction` returns the overlap of the original
    interval with the window, in window coordinates, and `(None, None)` exactly when the overlap is
    empty (the `UnboundLocalError` path included). -/
theorem x0x1_after_extraction_eq_overlap (x0o x1o x0e x1e : Int) (ho : x0o < x1o) (he : x0e < x1e) :
    Impl.x0x1AfterExtraction x0o x1o x0e x1e
      = if max x0o x0e < min x1o x1e then some (max x0o x0e - x0e, min x1o x1e - x0e) else none :=
  x0x1_eq_overlap x0o x1o x0e x1e ho he

/-- (b2) 2-D: for a valid region and a valid window, `region_after_extraction` never raises; it
    returns the overlap expressed in window coordinates when region and window overlap on both
    axes, and is absent (`None`) otherwise. -/
theorem region_after_extraction_eq_overlap (o e : R2) (ho : Spec.R2.Valid o) (he : Spec.R2.Valid e) :
    Impl.regionAfterExtraction o e =
      if max o.y0 e.y0 < min o.y1 e.y1 ∧ max o.x0 e.x0 < min o.x1 e.x1 then
        .value ⟨max o.y0 e.y0 - e.y0, min o.y1 e.y1 - e.y0, max o.x0 e.x0 - e.x0, min o.x1 e.x1 - e.x0⟩
      else .absent :=
  regionAfterExtraction_eq o e ho he

/-- (b3) the returned region addresses, inside the extracted window, exactly the overlap of the
    original region with the window: slicing the window's content by the new region gives the
    content of the overlap in the original array (any array). -/
theorem extraction_addresses_overlap (a : List (List α)) (o e r : R2)
    (ho : Spec.R2.Valid o) (he : Spec.R2.Valid e)
    (hres : Impl.regionAfterExtraction o e = .value r) :
    Impl.slice2d r (Impl.slice2d e a) = Impl.slice2d (Spec.overlapRegion o e) a :=
  extraction_addresses a o e r ho he hres

/-- (b4) absent iff region and window do not overlap. -/
theorem region_after_extraction_absent_iff (o e : R2) (ho : Spec.R2.Valid o) (he : Spec.R2.Valid e) :
    Impl.regionAfterExtraction o e = .absent
      ↔ ¬(max o.y0 e.y0 < min o.y1 e.y1 ∧ max o.x0 e.x0 < min o.x1 e.x1) := by
  rw [region_after_extraction_eq_overlap o e ho he]
  split <;> simp_all

/-! ### clause (c): front / trailing sub-regions and constructor validation -/

/-- (c0) constructors: a `Region2D` / `Region1D` is rejected exactly when a coordinate is negative
    or an extent is empty (or reversed); accepted regions are returned unchanged. -/
theorem region2d_rejects_iff_invalid (r : R2) :
    (Impl.region2dNew r = none ↔ (r.y0 < 0 ∨ r.y1 < 0 ∨ r.x0 < 0 ∨ r.x1 < 0 ∨ r.y1 ≤ r.y0 ∨ r.x1 ≤ r.x0))
    ∧ (∀ r', Impl.region2dNew r = some r' → r' = r) := by
  constructor
  · by_cases h : 0 ≤ r.y0 ∧ r.y0 < r.y1 ∧ 0 ≤ r.x0 ∧ r.x0 < r.x1
    · rw [region2dNew_eq_some h]; simp; omega
    · rw [region2dNew_eq_none h]; simp; omega
  · intro r' h'
    by_cases h : 0 ≤ r.y0 ∧ r.y0 < r.y1 ∧ 0 ≤ r.x0 ∧ r.x0 < r.x1
    · rw [region2dNew_eq_some h] at h'; exact (Option.some.inj h').symm
    · rw [region2dNew_eq_none h] at h'; exact absurd h' (by simp)

theorem region1d_rejects_iff_invalid (r : R1) :
    (Impl.region1dNew r = none ↔ (r.x0 < 0 ∨ r.x1 < 0 ∨ r.x1 ≤ r.x0))
    ∧ (∀ r', Impl.region1dNew r = some r' → r' = r) := by
  constructor
  · by_cases h : 0 ≤ r.x0 ∧ r.x0 < r.x1
    · rw [region1dNew_eq_some h]; simp; omega
    · rw [region1dNew_eq_none h]; simp; omega
  · intro r' h'
    by_cases h : 0 ≤ r.x0 ∧ r.x0 < r.x1
    · rw [region1dNew_eq_some h] at h'; exact (Option.some.inj h').symm
    · rw [region1dNew_eq_none h] at h'; exact absurd h' (by simp)

/-- (c1) parallel front region of a valid parent for pixel range `[a, b)`: accepted iff the range is
    non-empty and does not start before row 0 of the array; its rows are exactly the rows
    `y0 + k`, `a ≤ k < b`, counted from the parent's front edge `y0`; its columns are the parent's. -/
theorem parallel_front_rows (r : R2) (hr : Spec.R2.Valid r) (a b : Int) :
    (Impl.parallelFront r (a, b) = none ↔ (r.y0 + a < 0 ∨ b ≤ a))
    ∧ (∀ r', Impl.parallelFront r (a, b) = some r' →
        (∀ i : Int, (r'.y0 ≤ i ∧ i < r'.y1) ↔ ∃ k, a ≤ k ∧ k < b ∧ i = r.y0 + k)
        ∧ r'.x0 = r.x0 ∧ r'.x1 = r.x1) := by
  unfold Spec.R2.Valid at hr
  unfold Impl.parallelFront
  by_cases h : 0 ≤ r.y0 + a ∧ a < b
  · rw [region2dNew_eq_some (by dsimp only; omega)]
    refine ⟨by simp; omega, ?_⟩
    intro r' h'
    injection h' with h'; subst h'
    refine ⟨fun i => ⟨fun hi => ⟨i - r.y0, ?_, ?_, ?_⟩, fun ⟨k, h1, h2, h3⟩ => ?_⟩, rfl, rfl⟩ <;>
      dsimp only at * <;> omega
  · rw [region2dNew_eq_none (by dsimp only; omega)]
    exact ⟨by simp; omega, by simp⟩

/-- (c2) `pixels_from_end = k` selects exactly the last `k` rows of the parent: rows `y1 − k … y1 − 1`. -/
theorem parallel_front_from_end_rows (r : R2) (hr : Spec.R2.Valid r) (k : Int) (px : Option (Int × Int)) :
    ∃ p, Impl.frontPixels r.totalRows px (some k) = some p
      ∧ (Impl.parallelFront r p = none ↔ (r.y1 - k < 0 ∨ k ≤ 0))
      ∧ (∀ r', Impl.parallelFront r p = some r' →
          r'.y0 = r.y1 - k ∧ r'.y1 = r.y1 ∧ r'.x0 = r.x0 ∧ r'.x1 = r.x1) := by
  unfold Spec.R2.Valid at hr
  refine ⟨(r.totalRows - k, r.totalRows), rfl, ?_⟩
  unfold Impl.parallelFront R2.totalRows
  by_cases h : 0 ≤ r.y1 - k ∧ 0 < k
  · rw [region2dNew_eq_some (by dsimp only; omega)]
    refine ⟨by simp; omega, ?_⟩
    intro r' h'
    injection h' with h'; subst h'
    dsimp only
    omega
  · rw [region2dNew_eq_none (by dsimp only; omega)]
    exact ⟨by simp; omega, by simp⟩

/-- (c3) parallel trailing region: rows `y1 + k`, `a ≤ k < b`, counted from the parent's trailing
    edge `y1`. -/
theorem parallel_trailing_rows (r : R2) (hr : Spec.R2.Valid r) (a b : Int) :
    (Impl.parallelTrailing r (a, b) = none ↔ (r.y1 + a < 0 ∨ b ≤ a))
    ∧ (∀ r', Impl.parallelTrailing r (a, b) = some r' →
        (∀ i : Int, (r'.y0 ≤ i ∧ i < r'.y1) ↔ ∃ k, a ≤ k ∧ k < b ∧ i = r.y1 + k)
        ∧ r'.x0 = r.x0 ∧ r'.x1 = r.x1) := by
  unfold Spec.R2.Valid at hr
  unfold Impl.parallelTrailing
  by_cases h : 0 ≤ r.y1 + a ∧ a < b
  · rw [region2dNew_eq_some (by dsimp only; omega)]
    refine ⟨by simp; omega, ?_⟩
    intro r' h'
    injection h' with h'; subst h'
    refine ⟨fun i => ⟨fun hi => ⟨i - r.y1, ?_, ?_, ?_⟩, fun ⟨k, h1, h2, h3⟩ => ?_⟩, rfl, rfl⟩ <;>
      dsimp only at * <;> omega
  · rw [region2dNew_eq_none (by dsimp only; omega)]
    exact ⟨by simp; omega, by simp⟩

/-- (c4) serial front region: columns `x0 + k`, `a ≤ k < b`, counted from the parent's front edge
    `x0`; rows are the parent's. -/
theorem serial_front_columns (r : R2) (hr : Spec.R2.Valid r) (a b : Int) :
    (Impl.serialFront r (a, b) = none ↔ (r.x0 + a < 0 ∨ b ≤ a))
    ∧ (∀ r', Impl.serialFront r (a, b) = some r' →
        (∀ j : Int, (r'.x0 ≤ j ∧ j < r'.x1) ↔ ∃ k, a ≤ k ∧ k < b ∧ j = r.x0 + k)
        ∧ r'.y0 = r.y0 ∧ r'.y1 = r.y1) := by
  unfold Spec.R2.Valid at hr
  unfold Impl.serialFront Impl.serialXFrontRange
  by_cases h : 0 ≤ r.x0 + a ∧ a < b
  · rw [region2dNew_eq_some (by dsimp only; omega)]
    refine ⟨by simp; omega, ?_⟩
    intro r' h'
    injection h' with h'; subst h'
    refine ⟨fun i => ⟨fun hi => ⟨i - r.x0, ?_, ?_, ?_⟩, fun ⟨k, h1, h2, h3⟩ => ?_⟩, rfl, rfl⟩ <;>
      dsimp only at * <;> omega
  · rw [region2dNew_eq_none (by dsimp only; omega)]
    exact ⟨by simp; omega, by simp⟩

/-- (c5) serial `pixels_from_end = k`: exactly the last `k` columns of the parent. -/
theorem serial_front_from_end_columns (r : R2) (hr : Spec.R2.Valid r) (k : Int)
    (px : Option (Int × Int)) :
    ∃ p, Impl.frontPixels r.totalColumns px (some k) = some p
      ∧ (Impl.serialFront r p = none ↔ (r.x1 - k < 0 ∨ k ≤ 0))
      ∧ (∀ r', Impl.serialFront r p = some r' →
          r'.x0 = r.x1 - k ∧ r'.x1 = r.x1 ∧ r'.y0 = r.y0 ∧ r'.y1 = r.y1) := by
  unfold Spec.R2.Valid at hr
  refine ⟨(r.totalColumns - k, r.totalColumns), rfl, ?_⟩
  unfold Impl.serialFront Impl.serialXFrontRange R2.totalColumns
  by_cases h : 0 ≤ r.x1 - k ∧ 0 < k
  · rw [region2dNew_eq_some (by dsimp only; omega)]
    refine ⟨by simp; omega, ?_⟩
    intro r' h'
    injection h' with h'; subst h'
    dsimp only
    omega
  · rw [region2dNew_eq_none (by dsimp only; omega)]
    exact ⟨by simp; omega, by simp⟩

/-- (c6) serial trailing region: columns `x1 + k`, `a ≤ k < b`, counted from the trailing edge `x1`. -/
theorem serial_trailing_columns (r : R2) (hr : Spec.R2.Valid r) (a b : Int) :
    (Impl.serialTrailing r (a, b) = none ↔ (r.x1 + a < 0 ∨ b ≤ a))
    ∧ (∀ r', Impl.serialTrailing r (a, b) = some r' →
        (∀ j : Int, (r'.x0 ≤ j ∧ j < r'.x1) ↔ ∃ k, a ≤ k ∧ k < b ∧ j = r.x1 + k)
        ∧ r'.y0 = r.y0 ∧ r'.y1 = r.y1) := by
  unfold Spec.R2.Valid at hr
  unfold Impl.serialTrailing
  by_cases h : 0 ≤ r.x1 + a ∧ a < b
  · rw [region2dNew_eq_some (by dsimp only; omega)]
    refine ⟨by simp; omega, ?_⟩
    intro r' h'
    injection h' with h'; subst h'
    refine ⟨fun i => ⟨fun hi => ⟨i - r.x1, ?_, ?_, ?_⟩, fun ⟨k, h1, h2, h3⟩ => ?_⟩, rfl, rfl⟩ <;>
      dsimp only at * <;> omega
  · rw [region2dNew_eq_none (by dsimp only; omega)]
    exact ⟨by simp; omega, by simp⟩

/-- (c7) 1-D front region (and `pixels_from_end`): pixels `x0 + k`, `a ≤ k < b`. -/
theorem front1d_pixels (r : R1) (a b : Int) :
    (Impl.front1d r (a, b) = none ↔ (r.x0 + a < 0 ∨ b ≤ a))
    ∧ (∀ r', Impl.front1d r (a, b) = some r' →
        ∀ j : Int, (r'.x0 ≤ j ∧ j < r'.x1) ↔ ∃ k, a ≤ k ∧ k < b ∧ j = r.x0 + k) := by
  unfold Impl.front1d
  by_cases h : 0 ≤ r.x0 + a ∧ a < b
  · rw [region1dNew_eq_some (by dsimp only; omega)]
    refine ⟨by simp; omega, ?_⟩
    intro r' h'
    injection h' with h'; subst h'
    refine fun i => ⟨fun hi => ⟨i - r.x0, ?_, ?_, ?_⟩, fun ⟨k, h1, h2, h3⟩ => ?_⟩ <;>
      dsimp only at * <;> omega
  · rw [region1dNew_eq_none (by dsimp only; omega)]
    exact ⟨by simp; omega, by simp⟩

theorem front1d_from_end_pixels (r : R1) (k : Int) (px : Option (Int × Int)) :
    ∃ p, Impl.frontPixels r.totalPixels px (some k) = some p
      ∧ (Impl.front1d r p = none ↔ (r.x1 - k < 0 ∨ k ≤ 0))
      ∧ (∀ r', Impl.front1d r p = some r' → r'.x0 = r.x1 - k ∧ r'.x1 = r.x1) := by
  refine ⟨(r.totalPixels - k, r.totalPixels), rfl, ?_⟩
  unfold Impl.front1d R1.totalPixels
  by_cases h : 0 ≤ r.x1 - k ∧ 0 < k
  · rw [region1dNew_eq_some (by dsimp only; omega)]
    refine ⟨by simp; omega, ?_⟩
    intro r' h'
    injection h' with h'; subst h'
    dsimp only
    omega
  · rw [region1dNew_eq_none (by dsimp only; omega)]
    exact ⟨by simp; omega, by simp⟩

/-- (c8) 1-D trailing region: pixels `x1 + k`, `a ≤ k < b`. -/
theorem trailing1d_pixels (r : R1) (a b : Int) :
    (Impl.trailing1d r (a, b) = none ↔ (r.x1 + a < 0 ∨ b ≤ a))
    ∧ (∀ r', Impl.trailing1d r (a, b) = some r' →
        ∀ j : Int, (r'.x0 ≤ j ∧ j < r'.x1) ↔ ∃ k, a ≤ k ∧ k < b ∧ j = r.x1 + k) := by
  unfold Impl.trailing1d
  by_cases h : 0 ≤ r.x1 + a ∧ a < b
  · rw [region1dNew_eq_some (by dsimp only; omega)]
    refine ⟨by simp; omega, ?_⟩
    intro r' h'
    injection h' with h'; subst h'
    refine fun i => ⟨fun hi => ⟨i - r.x1, ?_, ?_, ?_⟩, fun ⟨k, h1, h2, h3⟩ => ?_⟩ <;>
      dsimp only at * <;> omega
  · rw [region1dNew_eq_none (by dsimp only; omega)]
    exact ⟨by simp; omega, by simp⟩

/-- (c9) content level: for a pixel range inside the parent (`0 ≤ a < b ≤ rows`), the parallel front
    region slices from any array exactly rows `a … b−1` (all columns) of the parent region's content. -/
theorem parallel_front_content (arr : List (List α)) (r : R2) (hr : Spec.R2.Valid r) (a b : Int)
    (ha : 0 ≤ a) (hab : a < b) (hb : b ≤ r.totalRows) :
    ∃ r', Impl.parallelFront r (a, b) = some r'
      ∧ Impl.slice2d r' arr
          = Impl.slice2d ⟨a, b, 0, r.totalColumns⟩ (Impl.slice2d r arr) := by
  unfold Spec.R2.Valid at hr
  unfold R2.totalRows at hb
  unfold Impl.parallelFront R2.totalColumns
  rw [region2dNew_eq_some (by dsimp only; omega)]
  refine ⟨_, rfl, ?_⟩
  simp only [slice2d_eq_sliceN, sliceN_sliceN]
  congr 1 <;> omega

/-- (c10) the serial front region slices exactly columns `a … b−1` (all rows) of the parent region's
    content, for `0 ≤ a < b ≤ columns`. -/
theorem serial_front_content (arr : List (List α)) (r : R2) (hr : Spec.R2.Valid r) (a b : Int)
    (ha : 0 ≤ a) (hab : a < b) (hb : b ≤ r.totalColumns) :
    ∃ r', Impl.serialFront r (a, b) = some r'
      ∧ Impl.slice2d r' arr
          = Impl.slice2d ⟨0, r.totalRows, a, b⟩ (Impl.slice2d r arr) := by
  unfold Spec.R2.Valid at hr
  unfold R2.totalColumns at hb
  unfold Impl.serialFront Impl.serialXFrontRange R2.totalRows
  rw [region2dNew_eq_some (by dsimp only; omega)]
  refine ⟨_, rfl, ?_⟩
  simp only [slice2d_eq_sliceN, sliceN_sliceN]
  congr 1 <;> omega

/-- (c11) 1-D: the front region slices exactly pixels `a … b−1` of the parent region's content. -/
theorem front1d_content (arr : List α) (r : R1) (hr : Spec.R1.Valid r) (a b : Int)
    (ha : 0 ≤ a) (hab : a < b) (hb : b ≤ r.totalPixels) :
    ∃ r', Impl.front1d r (a, b) = some r'
      ∧ Impl.slice1d r' arr = Impl.slice1d ⟨a, b⟩ (Impl.slice1d r arr) := by
  unfold Spec.R1.Valid at hr
  unfold R1.totalPixels at hb
  unfold Impl.front1d
  rw [region1dNew_eq_some (by dsimp only; omega)]
  refine ⟨_, rfl, ?_⟩
  unfold Impl.slice1d
  rw [window_window]
  dsimp only
  have e1 : (r.x0 + a).toNat = r.x0.toNat + a.toNat := by omega
  have e2 : (r.x0 + b).toNat = min r.x1.toNat (r.x0.toNat + b.toNat) := by omega
  rw [e1, e2]

/-! ### the `Layout2D` compositions (autoarray/layout/layout.py) -/

/-- (L1) `Layout2D.rotated_from_roe_corner`: if every present region lies inside the `h×w` frame the
    call succeeds for each of the four corners; the layout records the corner and the shape; `None`
    regions stay `None`; every present region becomes a valid region inside the frame that slices,
    from the array brought to the layout's orientation (`original_orientation_from`), exactly the
    rotated content of the original region — so `extract_parallel_overscan_array_2d_from` /
    `extract_serial_overscan_array_from` on the rotated array return the rotated overscans. -/
theorem layout_rotated_slices_rotated_content (c : Corner) (a : List (List α)) (h w : Nat)
    (po sp so : Option R2) (ha : a.length = h) (hrows : ∀ row ∈ a, row.length = w)
    (hpo : Spec.OptInside h w po) (hsp : Spec.OptInside h w sp) (hso : Spec.OptInside h w so) :
    ∃ L, Impl.layoutRotatedFromRoeCorner c h w po sp so = some L
      ∧ L.roe = c ∧ L.h = h ∧ L.w = w
      ∧ L.originalOrientationFrom a = Impl.rotateArray c a
      ∧ Spec.RegionRotated c h w a po L.parallelOverscan
      ∧ Spec.RegionRotated c h w a sp L.serialPrescan
      ∧ Spec.RegionRotated c h w a so L.serialOverscan
      ∧ L.extractParallelOverscan (L.originalOrientationFrom a)
          = po.map (fun r => Impl.rotateArray c (Impl.slice2d r a))
      ∧ L.extractSerialOverscan (L.originalOrientationFrom a)
          = so.map (fun r => Impl.rotateArray c (Impl.slice2d r a)) := by
  obtain ⟨e1, r1, _⟩ := optRegion_rotate c a h w po ha hrows hpo
  obtain ⟨e2, r2, _⟩ := optRegion_rotate c a h w sp ha hrows hsp
  obtain ⟨e3, r3, _⟩ := optRegion_rotate c a h w so ha hrows hso
  refine ⟨⟨h, w, c, po.map fun r => reflect r h w c, sp.map fun r => reflect r h w c,
    so.map fun r => reflect r h w c⟩, ?_, rfl, rfl, rfl, rfl, r1, r2, r3, ?_, ?_⟩
  · unfold Impl.layoutRotatedFromRoeCorner
    rw [e1, e2, e3]; rfl
  · cases po with
    | none => rfl
    | some r =>
      simp only [Impl.Layout2D.extractParallelOverscan, Impl.Layout2D.originalOrientationFrom,
        Option.map_some]
      exact congrArg some r1.2
  · cases so with
    | none => rfl
    | some r =>
      simp only [Impl.Layout2D.extractSerialOverscan, Impl.Layout2D.originalOrientationFrom,
        Option.map_some]
      exact congrArg some r3.2

/-- (L2) `Layout2D.new_rotated_from`: same statement for an existing layout (regions rotated with
    the layout's own `shape_2d`, corner replaced). -/
theorem layout_new_rotated_slices_rotated_content (l : Impl.Layout2D) (c : Corner) (a : List (List α))
    (ha : a.length = l.h) (hrows : ∀ row ∈ a, row.length = l.w)
    (hpo : Spec.OptInside l.h l.w l.parallelOverscan) (hsp : Spec.OptInside l.h l.w l.serialPrescan)
    (hso : Spec.OptInside l.h l.w l.serialOverscan) :
    ∃ L, l.newRotatedFrom c = some L ∧ L.roe = c ∧ L.h = l.h ∧ L.w = l.w
      ∧ Spec.RegionRotated c l.h l.w a l.parallelOverscan L.parallelOverscan
      ∧ Spec.RegionRotated c l.h l.w a l.serialPrescan L.serialPrescan
      ∧ Spec.RegionRotated c l.h l.w a l.serialOverscan L.serialOverscan := by
  obtain ⟨L, h1, h2, h3, h4, _, h6, h7, h8, _⟩ :=
    layout_rotated_slices_rotated_content c a l.h l.w l.parallelOverscan l.serialPrescan l.serialOverscan
      ha hrows hpo hsp hso
  exact ⟨L, h1, h2, h3, h4, h6, h7, h8⟩

/-- (L3) rotating a layout twice for the same corner restores every region (and the shape); the
    recorded corner is the one rotated for. -/
theorem layout_rotated_twice (l : Impl.Layout2D) (c : Corner)
    (hpo : Spec.OptInside l.h l.w l.parallelOverscan) (hsp : Spec.OptInside l.h l.w l.serialPrescan)
    (hso : Spec.OptInside l.h l.w l.serialOverscan) :
    (l.newRotatedFrom c).bind (fun l' => l'.newRotatedFrom c) = some { l with roe := c } := by
  obtain ⟨e1, i1⟩ := optRegion_rotate' c l.h l.w l.parallelOverscan hpo
  obtain ⟨e2, i2⟩ := optRegion_rotate' c l.h l.w l.serialPrescan hsp
  obtain ⟨e3, i3⟩ := optRegion_rotate' c l.h l.w l.serialOverscan hso
  obtain ⟨f1, _⟩ := optRegion_rotate' c l.h l.w _ i1
  obtain ⟨f2, _⟩ := optRegion_rotate' c l.h l.w _ i2
  obtain ⟨f3, _⟩ := optRegion_rotate' c l.h l.w _ i3
  unfold Impl.Layout2D.newRotatedFrom Impl.layoutRotatedFromRoeCorner
  rw [e1, e2, e3]
  simp only [Option.bind_some]
  rw [f1, f2, f3]
  simp only [Option.bind_some, map_reflect_reflect]

/-- (L4) `Layout2D.layout_extracted_from(window)`: for valid regions and a valid window the call
    never raises, keeps corner and shape, keeps `None` regions `None`, and every present region is
    afterwards absent iff it does not overlap the window and otherwise is the overlap in window
    coordinates, addressing inside the extracted window exactly the overlap's content. -/
theorem layout_extracted_regions (l : Impl.Layout2D) (e : R2) (he : Spec.R2.Valid e)
    (hpo : Spec.OptValid l.parallelOverscan) (hsp : Spec.OptValid l.serialPrescan)
    (hso : Spec.OptValid l.serialOverscan) :
    ∃ L, l.extractedFrom e = some L ∧ L.roe = l.roe ∧ L.h = l.h ∧ L.w = l.w
      ∧ Spec.RegionExtracted e l.parallelOverscan L.parallelOverscan
      ∧ Spec.RegionExtracted e l.serialPrescan L.serialPrescan
      ∧ Spec.RegionExtracted e l.serialOverscan L.serialOverscan := by
  obtain ⟨o1, e1, r1⟩ := optAfterExtraction_spec e l.parallelOverscan he hpo
  obtain ⟨o2, e2, r2⟩ := optAfterExtraction_spec e l.serialPrescan he hsp
  obtain ⟨o3, e3, r3⟩ := optAfterExtraction_spec e l.serialOverscan he hso
  refine ⟨⟨l.h, l.w, l.roe, o1, o2, o3⟩, ?_, rfl, rfl, rfl, r1, r2, r3⟩
  unfold Impl.Layout2D.extractedFrom
  rw [e1, e2, e3]; rfl

/-- (L5) `Array2D.original_orientation` (header corner `c`) undoes the rotation for `c`, and so does
    `Layout2D.original_orientation_from` of a layout recorded for `c`: array ↦ rotated ↦ original. -/
theorem original_orientation_undoes_rotation (c : Corner) (a : List (List α)) (l : Impl.Layout2D)
    (hl : l.roe = c) :
    Impl.arrayOriginalOrientation c (Impl.rotateArray c a) = a
    ∧ l.originalOrientationFrom (Impl.rotateArray c a) = a
    ∧ Impl.rotateArray c (Impl.arrayOriginalOrientation c a) = a := by
  refine ⟨Model.rotateArray_twice c a, ?_, Model.rotateArray_twice c a⟩
  unfold Impl.Layout2D.originalOrientationFrom
  rw [hl]
  exact Model.rotateArray_twice c a

/-- (L6) `Layout2D.__init__` with tuple regions accepts exactly the layouts all of whose present
    regions are valid (non-negative, non-empty), and stores them unchanged. -/
theorem layout_new_iff_valid (h w : Nat) (roe : Corner) (po sp so : Option R2) :
    (Spec.OptValid po ∧ Spec.OptValid sp ∧ Spec.OptValid so →
        Impl.layoutNew h w roe po sp so = some ⟨h, w, roe, po, sp, so⟩)
    ∧ (¬(Spec.OptValid po ∧ Spec.OptValid sp ∧ Spec.OptValid so) →
        Impl.layoutNew h w roe po sp so = none) := by
  have key : ∀ o : Option R2, (Spec.OptValid o → Impl.optRegion Impl.region2dNew o = some o)
      ∧ (¬Spec.OptValid o → Impl.optRegion Impl.region2dNew o = none) := by
    intro o
    cases o with
    | none => exact ⟨fun _ => rfl, fun h => absurd trivial h⟩
    | some r =>
      constructor
      · intro hv
        have hv' : Spec.R2.Valid r := hv
        unfold Spec.R2.Valid at hv'
        simp only [Impl.optRegion, region2dNew_eq_some hv', Option.map_some]
      · intro hv
        have hv' : ¬Spec.R2.Valid r := hv
        unfold Spec.R2.Valid at hv'
        simp only [Impl.optRegion, region2dNew_eq_none hv', Option.map_none]
  constructor
  · rintro ⟨h1, h2, h3⟩
    unfold Impl.layoutNew
    rw [(key po).1 h1, (key sp).1 h2, (key so).1 h3]; rfl
  · intro hn
    unfold Impl.layoutNew
    by_cases h1 : Spec.OptValid po
    · rw [(key po).1 h1]
      by_cases h2 : Spec.OptValid sp
      · rw [(key sp).1 h2]
        have h3 : ¬Spec.OptValid so := fun h3 => hn ⟨h1, h2, h3⟩
        rw [(key so).2 h3]; rfl
      · rw [(key sp).2 h2]; rfl
    · rw [(key po).2 h1]; rfl

/-! ### non-vacuity: concrete instances meeting every hypothesis above -/
example :
    let a : List (List Nat) := [[1, 2, 3, 4], [5, 6, 7, 8], [9, 10, 11, 12]]
    let r : R2 := ⟨0, 2, 1, 4⟩
    Spec.R2.Inside r 3 4
    ∧ Impl.rotateRegion r 3 4 .c01 = some ⟨1, 3, 0, 3⟩
    ∧ Impl.slice2d r a = [[2, 3, 4], [6, 7, 8]]
    ∧ Impl.slice2d ⟨1, 3, 0, 3⟩ (Impl.rotateArray .c01 a) = [[8, 7, 6], [4, 3, 2]]
    ∧ Impl.regionAfterExtraction r ⟨1, 3, 2, 3⟩ = .value ⟨0, 1, 0, 1⟩
    ∧ Impl.regionAfterExtraction r ⟨2, 3, 0, 4⟩ = .absent
    ∧ Impl.x0x1AfterExtraction 4 6 0 2 = none
    ∧ Impl.parallelFront r (1, 2) = some ⟨1, 2, 1, 4⟩
    ∧ Impl.parallelTrailing r (0, 1) = some ⟨2, 3, 1, 4⟩
    ∧ Impl.serialFront r (2, 1) = none
    ∧ Impl.region2dNew ⟨0, 2, -1, 4⟩ = none := by
  refine ⟨by unfold Spec.R2.Inside; decide, ?_⟩
  decide

/-- Layout2D, concretely (3×4 frame, corner (0,1), one absent region): the rotated layout, its
    extraction by a window that clips one region and misses another, and the double rotation. -/
example :
    let po : Option R2 := some ⟨0, 2, 1, 4⟩
    let so : Option R2 := some ⟨2, 3, 0, 1⟩
    Spec.OptInside 3 4 po ∧ Spec.OptInside 3 4 so ∧ Spec.OptInside 3 4 none
    ∧ Impl.layoutRotatedFromRoeCorner .c01 3 4 po none so
        = some ⟨3, 4, .c01, some ⟨1, 3, 0, 3⟩, none, some ⟨0, 1, 3, 4⟩⟩
    ∧ (Impl.layoutRotatedFromRoeCorner .c01 3 4 po none so).bind (fun l => l.extractedFrom ⟨1, 3, 2, 4⟩)
        = some ⟨3, 4, .c01, some ⟨0, 2, 0, 1⟩, none, none⟩
    ∧ ((Impl.layoutRotatedFromRoeCorner .c01 3 4 po none so).bind fun l => l.newRotatedFrom .c01)
        = some ⟨3, 4, .c01, po, none, so⟩
    ∧ Impl.layoutNew 3 4 .c10 (some ⟨0, 2, 4, 4⟩) none none = none := by
  refine ⟨by unfold Spec.OptInside Spec.R2.Inside; decide, by unfold Spec.OptInside Spec.R2.Inside; decide,
    trivial, ?_⟩
  decide

end C19
