/-
Props/C20.lean — property C20: triangle up-sampling tiles exactly; neighbourhoods and selections are
faithful.

All theorems are about the `Impl` layer of Model/Triangles.lean (transliteration of
`structures/triangles/{abstract,array,abstract_coordinate_array,coordinate_array,shape}.py`), over ANY
ordered field `α`, for ANY list of triangles / integer coordinates, side length, offsets, flip state,
and with the height factor `h` (= √3/2 in the code) a FREE parameter — the statements hold for every
`h`, so no square root occurs.  `a.triangles` is `vertices[indices]`; `InTri t p` means `p` is a convex
combination of the vertices of `t`; `SameTri t s` means `t` and `s` have the same three vertices.
-/
import Model.Triangles
import Proofs.Triangles
import Proofs.TrianglesSort
import Proofs.TrianglesCoord
import Proofs.TrianglesMask
import Proofs.TrianglesStruct

open Model

namespace C20

variable {α : Type} [Field α] [LinearOrder α] [IsStrictOrderedRing α]

/-! ## (a) midpoint subdivision -/

/-- (a) `ArrayTriangles.up_sample` returns, for every triangle, its four midpoint children and nothing
    else (the vertex de-duplication / re-indexing does not change any triangle); the count
    quadruples. -/
theorem a_up_sample_is_midpoint_children (a : Impl.ArrTris α) :
    a.upSample.triangles = Impl.upSampleRaw a.triangles
    ∧ a.upSample.triangles.length = 4 * a.triangles.length
    ∧ ∀ s, s ∈ a.upSample.triangles ↔ ∃ t ∈ a.triangles, s ∈ children t := by
  rw [upSample_triangles]
  exact ⟨rfl, upSampleRaw_length _, fun s => mem_upSampleRaw⟩

/-- (a) each child has one quarter of the parent's signed area (same orientation). -/
theorem a_children_quarter_area (t s : Tri α) (hs : s ∈ children t) :
    Impl.twiceSignedArea s = Impl.twiceSignedArea t / 4 :=
  area_children hs

/-- (a) total area (`AbstractTriangles.area`) is conserved by `up_sample`. -/
theorem a_area_conserved (a : Impl.ArrTris α) :
    Impl.area a.upSample.triangles = Impl.area a.triangles := by
  rw [upSample_triangles]; exact area_upSampleRaw _

/-- (a, tiling 1) the four children cover the parent and lie inside it: a point is in the closed
    parent iff it is in one of the closed children. -/
theorem a_children_cover_parent (t : Tri α) (p : α × α) :
    InTri t p ↔ ∃ s ∈ children t, InTri s p :=
  ⟨fun h => child_of_inTri t h, fun ⟨_, hs, hp⟩ => inTri_of_child hs hp⟩

/-- (a, tiling 2) which child: with barycentric weights `(a,b,c)` of the point in a non-degenerate
    parent, it lies in the corner child at a vertex iff that vertex's weight is `≥ ½`, and in the
    middle child iff all three weights are `≤ ½`. -/
theorem a_child_by_barycentric_weight {t : Tri α} (hd : Impl.twiceSignedArea t ≠ 0) {a b c : α}
    (ha : 0 ≤ a) (hb : 0 ≤ b) (hc : 0 ≤ c) (hs : a + b + c = 1) :
    (InTri (child3 t) (t.point a b c) ↔ 1 ≤ 2 * a)
    ∧ (InTri (child0 t) (t.point a b c) ↔ 1 ≤ 2 * b)
    ∧ (InTri (child1 t) (t.point a b c) ↔ 1 ≤ 2 * c)
    ∧ (InTri (child2 t) (t.point a b c) ↔ 2 * a ≤ 1 ∧ 2 * b ≤ 1 ∧ 2 * c ≤ 1) := by
  obtain ⟨h0, h1, h2, h3⟩ := inTri_child_iff hd ha hb hc hs
  exact ⟨h3, h0, h1, h2⟩

/-- (a, tiling 3) two different children of a non-degenerate parent overlap only on their edges:
    together with the previous two theorems the children tile the parent exactly. -/
theorem a_children_overlap_only_on_edges {t : Tri α} (hd : Impl.twiceSignedArea t ≠ 0) :
    (children t).Pairwise fun s1 s2 =>
      ∀ p, InTri s1 p → InTri s2 p → OnEdge s1 p ∧ OnEdge s2 p :=
  overlap_on_edges hd

/-- (a) every original vertex remains a vertex: it is a vertex of one of the new triangles and a row
    of the new (de-duplicated) vertex table. -/
theorem a_original_vertices_kept (a : Impl.ArrTris α) (t : Tri α) (ht : t ∈ a.triangles)
    (v : α × α) (hv : v ∈ t.verts) :
    (∃ s ∈ a.upSample.triangles, v ∈ s.verts) ∧ v ∈ a.upSample.vertices := by
  have h1 : ∃ s ∈ Impl.upSampleRaw a.triangles, v ∈ s.verts := by
    simp only [Tri.verts, List.mem_cons, List.not_mem_nil, or_false] at hv
    rcases hv with rfl | rfl | rfl
    · exact ⟨child3 t, mem_upSampleRaw.mpr ⟨t, ht, by simp [children]⟩, by simp [Tri.verts, child3]⟩
    · exact ⟨child0 t, mem_upSampleRaw.mpr ⟨t, ht, by simp [children]⟩, by simp [Tri.verts, child0]⟩
    · exact ⟨child1 t, mem_upSampleRaw.mpr ⟨t, ht, by simp [children]⟩, by simp [Tri.verts, child1]⟩
  refine ⟨by rw [upSample_triangles]; exact h1, ?_⟩
  obtain ⟨s, hs, hvs⟩ := h1
  show v ∈ sortUniq Impl.ltPair (Impl.flatVerts (Impl.upSampleRaw a.triangles))
  rw [mem_sortUniq ltPair_antisymm]
  exact List.mem_flatMap.mpr ⟨s, hs, hvs⟩

/-! ## (b) the integer-coordinate representation -/

/-- (b) `CoordinateArrayTriangles.up_sample`: the count quadruples, the side halves, the offsets are
    `x_offset` and `y_offset − h·L/4`, and the new coordinates are exactly the four integer children of
    every old coordinate (parity/flip dependent). -/
theorem b_coord_up_sample_structure (h : α) (c : Impl.CoordTris α) :
    (c.upSample h).coords.length = 4 * c.coords.length
    ∧ (c.upSample h).side = c.side / 2 ∧ (c.upSample h).xOff = c.xOff
    ∧ (c.upSample h).yOff = c.yOff + -(h * c.side / 4) ∧ (c.upSample h).flipped = true
    ∧ ∀ k, k ∈ (c.upSample h).coords ↔ ∃ p ∈ c.coords, k ∈ kids c.flipped p :=
  ⟨upSample_coords_length h c, rfl, rfl, rfl, rfl, mem_upSample_coords h c⟩

/-- (b) for either flip state: the vertex triangles of the four integer children of a coordinate are
    (same vertices) the four midpoint children of that coordinate's vertex triangle, one each. -/
theorem b_coord_children_are_midpoint_children (h : α) (c : Impl.CoordTris α) (p : Int × Int) :
    (∀ k ∈ kids c.flipped p, ∃ s ∈ children (Impl.coordTri h c p),
        SameTri (Impl.coordTri h (c.upSample h) k) s)
    ∧ (∀ s ∈ children (Impl.coordTri h c p), ∃ k ∈ kids c.flipped p,
        SameTri (Impl.coordTri h (c.upSample h) k) s) :=
  kids_same h c p

/-- (b) hence both representations up-sample to the same set of triangles. -/
theorem b_coord_up_sample_same_triangles (h : α) (c : Impl.CoordTris α) (t : Tri α) :
    (∃ t' ∈ (c.upSample h).triangles h, SameTri t t')
      ↔ ∃ s ∈ (c.arrayView h).upSample.triangles, SameTri t s := by
  rw [upSample_triangles, arrayView_triangles]
  exact coord_upSample_triangles h c t

/-- (b) the coordinate form's closed-form area `(h/2)·L²·N` is conserved by its `up_sample`. -/
theorem b_coord_area_conserved (h : α) (c : Impl.CoordTris α) :
    (c.upSample h).area h = c.area h := by
  simp only [Impl.CoordTris.area, upSample_coords_length, (upSample_fields h c).1]
  push_cast
  ring

/-! ## (c) neighbourhoods -/

/-- (c) the reflected vertex is the point reflection of the old vertex through the midpoint of the
    opposite edge, and the reflected triangle lies on the other side (opposite signed area). -/
theorem c_reflections (t : Tri α) :
    (Impl.vhalf (Impl.vadd (refl0 t).v0 t.v0) = Impl.vhalf (Impl.vadd t.v1 t.v2)
      ∧ Impl.twiceSignedArea (refl0 t) = - Impl.twiceSignedArea t)
    ∧ (Impl.vhalf (Impl.vadd (refl1 t).v1 t.v1) = Impl.vhalf (Impl.vadd t.v0 t.v2)
      ∧ Impl.twiceSignedArea (refl1 t) = - Impl.twiceSignedArea t)
    ∧ (Impl.vhalf (Impl.vadd (refl2 t).v2 t.v2) = Impl.vhalf (Impl.vadd t.v0 t.v1)
      ∧ Impl.twiceSignedArea (refl2 t) = - Impl.twiceSignedArea t) :=
  ⟨refl0_spec t, refl1_spec t, refl2_spec t⟩

/-- (c) `ArrayTriangles.neighborhood`: up to vertex order its triangles are exactly every original
    triangle together with its three edge reflections — and nothing else. -/
theorem c_neighbourhood_array (a : Impl.ArrTris α) (t : Tri α) :
    (∃ t' ∈ a.neighborhood.triangles, SameTri t t')
      ↔ ∃ s ∈ a.triangles, SameTri t s ∨ SameTri t (refl0 s) ∨ SameTri t (refl1 s)
          ∨ SameTri t (refl2 s) := by
  rw [neighborhood_triangles]
  constructor
  · rintro ⟨s, hs, hss⟩
    obtain ⟨u, hu, rfl | rfl | rfl | rfl⟩ := mem_neighborhoodRaw.mp hs
    · exact ⟨_, hu, Or.inl hss⟩
    · exact ⟨u, hu, Or.inr (Or.inl hss)⟩
    · exact ⟨u, hu, Or.inr (Or.inr (Or.inl hss))⟩
    · exact ⟨u, hu, Or.inr (Or.inr (Or.inr hss))⟩
  · rintro ⟨s, hs, h | h | h | h⟩
    · exact ⟨s, mem_neighborhoodRaw.mpr ⟨s, hs, Or.inl rfl⟩, h⟩
    · exact ⟨_, mem_neighborhoodRaw.mpr ⟨s, hs, Or.inr (Or.inl rfl)⟩, h⟩
    · exact ⟨_, mem_neighborhoodRaw.mpr ⟨s, hs, Or.inr (Or.inr (Or.inl rfl))⟩, h⟩
    · exact ⟨_, mem_neighborhoodRaw.mpr ⟨s, hs, Or.inr (Or.inr (Or.inr rfl))⟩, h⟩

/-- (c) coordinate form: the coordinates `(x±1, y)`, `(x, y∓1)` (sign by parity/flip) have the vertex
    triangles of the three edge reflections; side, offsets and flip state are kept and the new
    coordinate list is exactly the union (duplicates removed). -/
theorem c_coord_neighbours (h : α) (c : Impl.CoordTris α) :
    (∀ k, k ∈ c.neighborhood.coords ↔ ∃ p ∈ c.coords, k ∈ nbs c.flipped p)
    ∧ (∀ p, (∀ k ∈ nbs c.flipped p, ∃ s ∈ withRefls (Impl.coordTri h c p),
                SameTri (Impl.coordTri h c.neighborhood k) s)
          ∧ (∀ s ∈ withRefls (Impl.coordTri h c p), ∃ k ∈ nbs c.flipped p,
                SameTri (Impl.coordTri h c.neighborhood k) s)) :=
  ⟨mem_neighborhood_coords c, fun p => nbs_same h c p⟩

/-- (c) hence both representations have the same neighbourhood (as sets of triangles). -/
theorem c_coord_neighbourhood_same_triangles (h : α) (c : Impl.CoordTris α) (t : Tri α) :
    (∃ t' ∈ c.neighborhood.triangles h, SameTri t t')
      ↔ ∃ s ∈ (c.arrayView h).neighborhood.triangles, SameTri t s := by
  rw [coord_neighborhood_triangles, neighborhood_triangles, arrayView_triangles]

/-! ## (d) selections, the two representations, containment -/

/-- (d) `for_indexes` returns the selected triangles (same vertex coordinates, same order), in both
    representations. -/
theorem d_for_indexes (h : α) (a : Impl.ArrTris α) (c : Impl.CoordTris α) (idx : List Nat) :
    ((∀ k ∈ idx, k < a.indices.length) →
        (a.forIndexes idx).triangles.map some = idx.map fun k => a.triangles[k]?)
    ∧ ((∀ k ∈ idx, k < c.coords.length) →
        ((c.forIndexes idx).triangles h).map some = idx.map fun k => (c.triangles h)[k]?) :=
  ⟨forIndexes_triangles a idx, coord_forIndexes_triangles h c idx⟩

/-- (d) the vertex-array view of a coordinate set (`vertices`/`indices` + `with_vertices`) describes
    exactly the coordinate set's triangles, and `with_vertices` with the own vertices is the identity. -/
theorem d_array_view (h : α) (c : Impl.CoordTris α) (a : Impl.ArrTris α) :
    (c.arrayView h).triangles = c.triangles h
    ∧ (a.withVertices a.vertices).triangles = a.triangles :=
  ⟨arrayView_triangles h c, rfl⟩

/-- (d) `Point.mask` is true exactly when the triangle is non-degenerate and the point lies in the
    closed triangle. -/
theorem d_point_mask_iff (px py : α) (t : Tri α) :
    Impl.pointMask px py t = true ↔ Impl.twiceSignedArea t ≠ 0 ∧ InTri t (px, py) :=
  ⟨inTri_of_pointMask, fun ⟨hd, hp⟩ => pointMask_of_inTri (p := (px, py)) hd hp⟩

/-- (d) every shape (point, circle, square, polygon) is reported by a non-degenerate triangle that
    contains its reference point; `containing_indices` lists the index of every such triangle. -/
theorem d_shape_masks_contain_reference_point (s : Impl.Shape α) (ts : List (Tri α)) (i : Nat)
    (t : Tri α) (hi : ts[i]? = some t) (hd : Impl.twiceSignedArea t ≠ 0) (hp : InTri t s.ref) :
    s.mask t = true ∧ i ∈ Impl.containingIndices s ts :=
  ⟨shapeMask_of_ref_inTri s hd hp,
   (mem_containingIndices s ts i).mpr ⟨t, hi, shapeMask_of_ref_inTri s hd hp⟩⟩

/-- (quantifier domain) `CoordinateArrayTriangles.for_limits_and_scale` produces the full integer box
    of coordinates `[int(2x_min/s), int(2x_max/s)] × [int(y_min/(h s)) − 1, int(y_max/(h s)) + 1]` with
    side `s`, zero offsets, not flipped — an instance of the coordinate sets all theorems above
    quantify over (`trunc` = Python's `int()`). -/
theorem d_for_limits_and_scale_box (trunc : α → Int) (h xMin xMax yMin yMax scale : α) (k : Int × Int) :
    k ∈ Impl.coordsForLimits trunc h xMin xMax yMin yMax scale ↔
      (trunc (2 * xMin / scale) ≤ k.1 ∧ k.1 ≤ trunc (2 * xMax / scale))
      ∧ (trunc (yMin / (h * scale)) - 1 ≤ k.2 ∧ k.2 ≤ trunc (yMax / (h * scale)) + 1) :=
  mem_coordsForLimits trunc h xMin xMax yMin yMax scale k

/-! ## non-vacuity: concrete instances over ℚ (h := 7/8) meet the hypotheses used above -/

/-- two triangles sharing an edge (a 4×4 square cut along a diagonal). -/
def exA : Impl.ArrTris ℚ := ⟨[(0, 1, 2), (1, 3, 2)], [(0, 0), (4, 0), (0, 4), (4, 4)]⟩

/-- an upright and a flipped lattice triangle, side 2, offsets (1, 3). -/
def exC : Impl.CoordTris ℚ := ⟨[(0, 0), (1, 0)], 2, 1, 3, false⟩

example : exA.upSample.triangles.length = 8 := by decide +kernel
example : exA.upSample.vertices
    = [(0, 0), (0, 2), (0, 4), (2, 0), (2, 2), (2, 4), (4, 0), (4, 2), (4, 4)] := by decide +kernel
example : Impl.area exA.triangles = 16 ∧ Impl.area exA.upSample.triangles = 16 := by
  constructor <;> decide +kernel
example : exA.neighborhood.triangles.length = 6 := by decide +kernel
example : Impl.containingIndices (.point 1 1) exA.triangles = [0] := by decide +kernel
example : Impl.containingIndices (.circle 2 2 0) exA.triangles = [0, 1] := by decide +kernel
example : (exC.upSample (7/8)).coords
    = [(0, 0), (1, 0), (-1, 0), (0, 1), (2, 0), (3, 1), (1, 1), (2, 1)] := by decide +kernel
example : exC.neighborhood.coords = [(-1, 0), (0, -1), (0, 0), (1, 0), (1, 1), (2, 0)] := by
  decide +kernel
example : Impl.twiceSignedArea (Impl.coordTri (7/8) exC (0, 0)) ≠ 0 := by decide +kernel

end C20
