#!/bin/bash
# tools/apply_fix.sh <slug>   — applies /verif/fixes/<slug>.patch to /repo as one `fix:` commit and
# records the commit sha in /verif/fixes/commits.json under the defect id (slug prefix before '-').
set -e
slug="$1"; P=/verif/fixes/$slug.patch; M=/verif/fixes/$slug.msg
[ -f "$P" ] && [ -f "$M" ] || { echo "missing $P or $M"; exit 2; }
head -1 "$M" | grep -q '^fix:' || { echo "message must start with fix:"; exit 2; }
cd /repo
[ -z "$(git status --porcelain --untracked-files=no)" ] || { echo "/repo dirty"; git status --short; exit 2; }
git apply --check "$P"
git apply "$P"
git commit -qa -F "$M"
sha=$(git rev-parse --short HEAD)
python3 - "$slug" "$sha" <<'PY'
import json,sys,os
f='/verif/fixes/commits.json'
d=json.load(open(f)) if os.path.exists(f) else {}
d[sys.argv[1].split('-')[0]]=sys.argv[2]
json.dump(d,open(f,'w'),indent=1,sort_keys=True)
PY
echo "applied $slug as $sha"
