#!/usr/bin/env python3
"""tools/collect_seeded.py — copies confirmed seeded changes from the staging area into /verif/seeded/<id>/
(patch.diff, demo.py, meta.json) and merges the confirmation + detection results into meta.json."""
import json, shutil, sys, subprocess
from pathlib import Path
STAGE = Path("/tmp/mut/stage"); OUT = Path("/verif/seeded")
det = {}
detf = Path("/tmp/mut/detection.json")
if detf.exists():
    det = json.loads(detf.read_text())
for d in sorted(STAGE.iterdir()):
    cf = d / "confirm.json"
    if not cf.exists():
        continue
    c = json.loads(cf.read_text())
    ok = c.get("applies") and c.get("demo_exit_pristine") == 0 and c.get("demo_exit_patched") not in (0, None) and c.get("test_failset_equals_baseline")
    meta = json.loads((d / "meta.json").read_text())
    meta["id"] = d.name
    meta["confirmed_by_orchestrator"] = c
    meta["confirmation_cmd"] = "tools/confirm_mutant.sh <dir> <scratch worktree of /repo HEAD>: demo on pristine (exit 0), git apply patch.diff, demo (exit != 0), full pytest failing-set == baseline, git checkout -- ."
    if d.name in det:
        meta["detection"] = det[d.name]
    if not ok:
        meta["kept"] = False
        print("NOT KEPT", d.name, c)
        continue
    o = OUT / d.name
    o.mkdir(parents=True, exist_ok=True)
    shutil.copy(d / "patch.diff", o / "patch.diff")
    shutil.copy(d / "demo.py", o / "demo.py")
    (o / "meta.json").write_text(json.dumps(meta, indent=1))
    print("kept", d.name, meta.get("detection", {}).get("result", ""))
