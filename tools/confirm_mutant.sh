#!/bin/bash
# tools/confirm_mutant.sh <mutant_dir containing patch.diff demo.py> <scratch_worktree>
# Confirms in a scratch worktree: demo passes pristine, fails with patch; test-suite failing set == baseline.
# Writes <mutant_dir>/confirm.json
set -u
MD=$(realpath "$1"); WT=$(realpath "$2")
BASE=/tmp/mut/baseline_fail.txt
cd "$WT" || exit 2
git checkout -q -- . 
runtests() { /venv/bin/python -m pytest -q -p no:cacheprovider -n ${PYTEST_N:-6} --timeout=900 test_autoarray 2>&1 | grep -E "^(FAILED|ERROR)" | sed 's/ - .*//' | sort; }
if [ ! -s "$BASE" ]; then runtests > "$BASE"; fi
rundemo() { ( cd "$WT" && PYTHONPATH="$WT" timeout 600 /venv/bin/python "$MD/demo.py" >/dev/null 2>&1 ); echo $?; }
d0=$(rundemo)
git apply "$MD/patch.diff" || { echo "{\"applies\": false}" > "$MD/confirm.json"; exit 1; }
d1=$(rundemo)
runtests > "$MD/fails_with_patch.txt"
# tests that share files/array_out.fits race under xdist: re-run any EXTRA failure alone, serially, and drop it if it passes
extra=$(comm -13 "$BASE" "$MD/fails_with_patch.txt" | sed -E 's/^(FAILED|ERROR) //')
for t in $extra; do
  if /venv/bin/python -m pytest -q -p no:cacheprovider -p no:xdist --timeout=900 "$t" >/dev/null 2>&1; then
    grep -vF "$t" "$MD/fails_with_patch.txt" > "$MD/fails_with_patch.tmp"; mv "$MD/fails_with_patch.tmp" "$MD/fails_with_patch.txt"
  fi
done
same=false; diff -q "$BASE" "$MD/fails_with_patch.txt" >/dev/null && same=true
git checkout -q -- .
echo "{\"applies\": true, \"demo_exit_pristine\": $d0, \"demo_exit_patched\": $d1, \"test_failset_equals_baseline\": $same}" > "$MD/confirm.json"
cat "$MD/confirm.json"
