#!/bin/bash
# tools/final_run.sh — regenerate derived files and evidence on the current /repo HEAD (quick tier, seed 0)
set -u
cd /verif
python3-vt tools_manifest.py || exit 1
PYTHONPATH=/repo:/verif/harness /venv/bin/python tools/update_model_map.py 2>&1 | grep -i missing
/venv/bin/python harness/translate.py /repo Geometry > lean/Generated/Geometry.lean
/venv/bin/python harness/translate.py /repo OverSample > lean/Generated/OverSample.lean
(cd lean && lake build 2>&1 | grep -E "^✖|error:|Build completed")
tools/run_all.sh quick 0
python3-vt - <<'PY'
import json, glob, jsonschema
sch = json.load(open('/root/.vp/EVIDENCE.schema.json'))
for f in sorted(glob.glob('/verif/evidence/C*.json')):
    e = json.load(open(f)); jsonschema.validate(e, sch)
    c = e['coverage']; assert c['obligations'] == c['discharged'] >= 1, f
print("evidence valid:", len(glob.glob('/verif/evidence/C*.json')))
PY
