#!/bin/bash
# tools/run_all.sh [tier] [seed]  — every claimed check, sequentially, on /repo; one summary line each
cd /verif; TIER=${1:-quick}; export VERIF_SEED=${2:-0}
for i in $(seq -w 1 20); do p=C$i
  s=$(date +%s); out=$(./check $p --tier $TIER 2>&1); rc=$?; e=$(( $(date +%s) - s ))
  echo "$p rc=$rc ${e}s $(echo "$out" | grep -E '^(OK|VIOLATION|INTERNAL)' | head -2 | cut -c1-160 | tr '\n' ' ') known=$(echo "$out" | grep -c '^KNOWN-FINDING')"
done
