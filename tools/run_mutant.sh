#!/bin/bash
# tools/run_mutant.sh <mutant_dir> [tier] — applies <mutant_dir>/patch.diff in a scratch worktree of /repo HEAD
# (outside /repo and /verif), runs the check of the property named in meta.json against it via
# VERIF_REPO, prints CAUGHT/MISSED, removes the worktree.  Never touches /repo's working tree.
set -u
MD=$(realpath "$1"); TIER=${2:-quick}
PID=${3:-$(python3 -c "import json,sys; print(json.load(open('$MD/meta.json'))['property'])")}
WT=$(mktemp -d /tmp/mutrun.XXXXXX)
git -C /repo worktree add -q --detach "$WT" HEAD || exit 2
cleanup() { git -C /repo worktree remove --force "$WT" 2>/dev/null; rm -rf "$WT"; }
trap cleanup EXIT
if ! git -C "$WT" apply "$MD/patch.diff" 2>/dev/null; then echo "$(basename $MD) $PID PATCH-DOES-NOT-APPLY"; exit 3; fi
cd /verif
out=$(VERIF_REPO="$WT" VERIF_EVIDENCE_DIR=/tmp/mutrun_evidence ./check "$PID" --tier "$TIER" 2>&1)
rc=$?
if echo "$out" | grep -q "^VIOLATION property=$PID"; then
  echo "$(basename $MD) $PID CAUGHT rc=$rc $(echo "$out" | grep '^VIOLATION' | head -1)"
else
  echo "$(basename $MD) $PID MISSED rc=$rc $(echo "$out" | tail -1 | cut -c1-200)"
fi
