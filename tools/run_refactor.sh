#!/bin/bash
# tools/run_refactor.sh <dir with patch.diff meta.json> [tier] — applies a HARMLESS (behaviour-preserving) refactor in a
# scratch worktree of /repo HEAD and runs the property's check against it: the expected outcome is QUIET (exit 0).
set -u
MD=$(realpath "$1"); TIER=${2:-quick}
PID=$(python3 -c "import json; print(json.load(open('$MD/meta.json'))['property'])")
WT=$(mktemp -d /tmp/refrun.XXXXXX)
git -C /repo worktree add -q --detach "$WT" HEAD || exit 2
cleanup() { git -C /repo worktree remove --force "$WT" 2>/dev/null; rm -rf "$WT"; }
trap cleanup EXIT
if ! git -C "$WT" apply "$MD/patch.diff" 2>/dev/null; then echo "$(basename $MD) $PID PATCH-DOES-NOT-APPLY"; exit 3; fi
cd /verif
out=$(VERIF_REPO="$WT" VERIF_EVIDENCE_DIR=/tmp/refrun_evidence ./check "$PID" --tier "$TIER" 2>&1); rc=$?
if [ $rc -eq 0 ] && ! echo "$out" | grep -q "^VIOLATION"; then echo "$PID QUIET rc=0 $(echo "$out" | grep '^OK' | cut -c1-120)"
else echo "$PID ALARM rc=$rc $(echo "$out" | grep -E '^(VIOLATION|INTERNAL)' | head -2 | tr '\n' ' ' | cut -c1-300)"; fi
