#!/bin/bash
# stage finished round-2 mutants (/tmp/mut2/Cxx/_out/mN) into /tmp/mut/stage/Cxx-r2mN
for p in "$@"; do for m in m1 m2; do s=/tmp/mut2/$p/_out/$m; d=/tmp/mut/stage/$p-r2$m
  [ -f $s/patch.diff ] || continue; mkdir -p $d; cp $s/patch.diff $s/demo.py $s/meta.json $d/ 2>/dev/null
  sed -i -E 's#/tmp/mut2?/C[0-9]{2}#.#g' $d/demo.py; done; done
ls /tmp/mut/stage | wc -l
