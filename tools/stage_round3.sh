#!/bin/bash
for p in "$@"; do s=/tmp/mut3/$p/_out/m1; d=/tmp/mut/stage/$p-r3m1
  [ -f $s/patch.diff ] || continue; mkdir -p $d; cp $s/patch.diff $s/demo.py $s/meta.json $d/ 2>/dev/null
  sed -i -E 's#/tmp/mut[23]?/C[0-9]{2}#.#g' $d/demo.py; done
ls /tmp/mut/stage | wc -l
