#!/bin/bash
# tools/stage_round5.sh C01 C02 …  — copy a round-5 agent's output into the staging area, confirm it in the
# agent's (pristine) scratch worktree, run the property's check against it, and print one line per change.
for p in "$@"; do for m in m1 m2; do
  s=/tmp/mut4/$p/_out5/$m; d=/tmp/mut/stage/$p-r5$m
  [ -f $s/patch.diff ] || { echo "$p-r5$m: no patch"; continue; }
  mkdir -p $d; cp $s/patch.diff $s/demo.py $s/meta.json $d/ 2>/dev/null
  sed -i -E "s#/tmp/mut4/$p#.#g" $d/demo.py
  git -C /tmp/mut4/$p checkout -q -- . 2>/dev/null
  tools/confirm_mutant.sh $d /tmp/mut4/$p | tail -1
  tools/run_mutant.sh $d quick | tail -1 | tee $d/detection.txt
done; done
