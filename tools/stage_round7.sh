#!/bin/bash
# tools/stage_round6.sh C01 C02 …  — for each round-7 agent output (/tmp/mut7/<P>/_out/m1|m2): copy to the staging
# area, confirm it in the agent's (pristine) scratch worktree (demo passes pristine / fails patched, pytest failing
# set == baseline), run the property's check against it, and COPY IT INTO /verif/seeded/<P>-r6m<k>/ AT ONCE
# (meta.json gets the confirmation and the first-attempt detection result).
cd /verif
for p in "$@"; do for m in m1; do
  s=/tmp/mut7/$p/_out/$m; id=$p-r7$m; d=/tmp/mut/stage/$id
  [ -f $s/patch.diff ] || { echo "$id: no patch"; continue; }
  mkdir -p $d; cp $s/patch.diff $s/demo.py $s/meta.json $d/ 2>/dev/null
  sed -i -E "s#/tmp/mut7/$p/_out/output#/tmp/seeded_demo_output#g; s#/tmp/mut7/$p#.#g" $d/demo.py
  git -C /tmp/mut7/$p checkout -q -- . 2>/dev/null
  PYTEST_N=4 tools/confirm_mutant.sh $d /tmp/mut7/$p | tail -1
  tools/run_mutant.sh $d quick | tail -1 | tee $d/detection.txt
  python3 - "$d" "$id" <<'PY'
import json, sys, shutil
from pathlib import Path
d = Path(sys.argv[1]); mid = sys.argv[2]
c = json.loads((d / "confirm.json").read_text())
meta = json.loads((d / "meta.json").read_text())
ok = c.get("applies") and c.get("demo_exit_pristine") == 0 and c.get("demo_exit_patched") not in (0, None) and c.get("test_failset_equals_baseline")
meta.update({"id": mid, "round": 7, "confirmed_by_orchestrator": c,
             "confirmation_cmd": "tools/confirm_mutant.sh <dir> <scratch worktree of /repo HEAD>: demo on pristine (exit 0), git apply patch.diff, demo (exit != 0), full pytest failing-set == baseline (extra xdist-race failures re-run serially), git checkout -- ."})
det = (d / "detection.txt").read_text().strip() if (d / "detection.txt").exists() else ""
meta["detection_first_attempt"] = {"own_check": det, "result": "caught" if " CAUGHT " in det else "missed"}
if ok:
    o = Path("/verif/seeded") / mid; o.mkdir(parents=True, exist_ok=True)
    for f in ("patch.diff", "demo.py"): shutil.copy(d / f, o / f)
    (o / "meta.json").write_text(json.dumps(meta, indent=1))
    print("KEPT", mid, meta["detection_first_attempt"]["result"])
else:
    print("NOT KEPT", mid, c)
PY
done; done
