#!/bin/bash
# quick overview of per-property build state
cd /verif
for i in $(seq -w 1 20); do p=C$i; l=c$i
  th=$(grep -c "^theorem" lean/Props/$p.lean 2>/dev/null || echo 0)
  pl=$(cat lean/Props/$p.lean 2>/dev/null | wc -l)
  hl=$(cat harness/props/$l.py 2>/dev/null | wc -l)
  dl=$(cat lean/Driver/$p.lean 2>/dev/null | wc -l)
  cl=$([ -f claims.d/$p.json ] && echo claim || echo -)
  dn=$([ -f design_notes/$p.md ] && echo note || echo -)
  echo "$p theorems=$th props_lines=$pl harness_lines=$hl driver_lines=$dl $cl $dn"
done
