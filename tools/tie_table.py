#!/usr/bin/env python3
"""tools/tie_table.py — markdown table of the loop-tie modules (DESIGN §12): module, owning check(s),
functions translated, tie theorems in the hand-written tie file."""
import json, re, sys
from pathlib import Path
V = Path("/verif")
owners = {}
for f in sorted((V / "harness/props").glob("c*.py")):
    m = re.search(r"loop_tie_modules\s*=\s*(\[[^\]]*\])", f.read_text())
    if m:
        for mod in json.loads(m.group(1).replace("'", '"')):
            owners.setdefault(mod, []).append(f.stem.upper())
rows = []
tot_f = tot_t = 0
for t in sorted((V / "harness/loop_targets").glob("*.json")):
    j = json.loads(t.read_text())
    topic = j["module"][5:] if j["module"].startswith("Loops") else j["module"]
    tie = V / "lean" / (j.get("tie_module", f"Proofs.Tie{topic}").replace(".", "/") + ".lean")
    thms = re.findall(r"^theorem (\S+)", tie.read_text(), re.M) if tie.exists() else []
    fns = [f["name"] for f in j["functions"]]
    tot_f += len(fns); tot_t += len(thms)
    rows.append(f"| `{j['module']}` | {', '.join(owners.get(j['module'], ['–']))} | {len(fns)} | {len(thms)} | "
                + ", ".join(f"`{n}`" for n in fns) + " |")
print("| module | check | functions | tie theorems | Python functions tied |")
print("|---|---|---:|---:|---|")
print("\n".join(rows))
print(f"\nTotal: {tot_f} translated functions, {tot_t} tie theorems in {len(rows)} modules.")
