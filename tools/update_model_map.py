#!/usr/bin/env python3
"""tools/update_model_map.py — records the AST fingerprints of every modelled Python function (each
property module's `modelled_functions`) for the CURRENT /repo tree into harness/model_map.json.
Run with: PYTHONPATH=/repo:/verif/harness /venv/bin/python tools/update_model_map.py"""
import importlib, json, sys
from pathlib import Path
sys.path.insert(0, "/verif/harness")
import common
out = {}
for i in range(1, 21):
    pid = f"C{i:02d}"
    try:
        chk = importlib.import_module(f"props.{pid.lower()}").CHECK
    except Exception as e:
        print(pid, "import failed", e); continue
    names = list(getattr(chk, "modelled_functions", []) or [])
    h = common.function_hashes(names)
    missing = [n for n, v in h.items() if v == "missing"]
    if missing:
        print(pid, "MISSING:", missing)
    out[pid] = h
    print(pid, len(names), "functions")
consts = {}
for pid in list(out):
    chk = importlib.import_module(f"props.{pid.lower()}").CHECK
    files = sorted(common.anchor_files(pid) | {n.split(":")[0] for n in (getattr(chk, "modelled_functions", []) or [])})
    consts.update(common.file_int_constants(files))
out["__consts__"] = consts
(Path("/verif/harness/model_map.json")).write_text(json.dumps(out, indent=1, sort_keys=True))
