#!/usr/bin/env python3
"""Regenerates MANIFEST.json from the table below (keeps it schema-valid at all times)."""
import json, sys
from pathlib import Path
V = Path(__file__).resolve().parent
BASE_CMD = json.load(open("/root/.vp/BASELINE.json"))["cmd"] if Path("/root/.vp/BASELINE.json").exists() else "cd /repo && /venv/bin/python -m pytest -ra -q -p no:cacheprovider --timeout=900 --continue-on-collection-errors"
claims = json.load(open(V / "claims.json"))
for f in sorted((V / "claims.d").glob("*.json")):
    try:
        claims[f.stem] = json.load(open(f))
    except Exception as e:
        print("skip", f, e)
# merge known findings fragments (known_findings.d/*.json + fix commit table) into known_findings.json
fixmap = json.load(open(V / "fixes" / "commits.json")) if (V / "fixes" / "commits.json").exists() else {}
kf = {"findings": [], "fixed": []}
for f in sorted((V / "known_findings.d").glob("*.json")):
    try:
        d = json.load(open(f))
    except Exception as e:
        print("skip", f, e); continue
    kf["findings"] += d.get("findings", [])
    for line in d.get("fixed", []):
        for dn, sha in fixmap.items():
            line = line.replace(f"<FIXCOMMIT:{dn}>", sha)
        kf["fixed"].append(line)
json.dump(kf, open(V / "known_findings.json", "w"), indent=1)
props = [json.loads(l) for l in open(V / "properties.jsonl")]
checks, na = [], []
for p in props:
    pid = p["id"]
    c = claims.get(pid)
    if not c or not c.get("claimed"):
        na.append({"property_id": pid, "reason": (c or {}).get("reason", "check not built yet in this round; will be claimed once its model, theorems and correspondence exist")})
        continue
    checks.append({
        "property_id": pid,
        "quick_cmd": f"./check {pid} --tier quick",
        "thorough_cmd": f"./check {pid} --tier thorough",
        "evidence_file": f"evidence/{pid}.json",
        "replay_cmd_template": f"./check {pid} --replay {{path}}",
        "engine": "lean4-model+correspondence",
        "level_claimed": {"category": "proof", "text": c["text"], "design_ref": c.get("design_ref", f"DESIGN.md §5 {pid}")},
        "level_note": c["note"],
        "technique": c.get("technique", "Lean 4 theorems about a hand-written executable model; model tied to /repo by a differential correspondence run (compiled Lean driver vs in-process Python)"),
    })
man = {
    "version": 1,
    "setup_cmd": "cd lean && lake build",
    "hooks": {"guard": "PYAUTOARRAY_VERIF", "enable": "no source hooks: the harness reaches the code through its public API; ./check exports PYAUTOARRAY_VERIF=1 and PYTHONPATH=/repo", "baseline_off_cmd": BASE_CMD.replace(" --junitxml=<file>", ""), "source_commits": [], "add_only": True},
    "engines": [{"name": "lean4-model+correspondence", "path": "lean/ + harness/", "serves_properties": [c["property_id"] for c in checks], "kind_free_text": "Lean 4.33 model (Model/*.lean) + theorems (Props/*.lean, Proofs/*.lean) + compiled JSON-lines driver; Python harness runs real code and model on the same inputs and diffs"}],
    "checks": checks,
    "notes": "See DESIGN.md. Exit codes: 0 held/known findings only, 1 violation, 2 internal error.",
    "not_applicable": na,
}
json.dump(man, open(V / "MANIFEST.json", "w"), indent=1)
try:
    import jsonschema
    jsonschema.validate(man, json.load(open("/root/.vp/MANIFEST.schema.json")))
    print("MANIFEST valid;", len(checks), "claimed,", len(na), "not claimed")
except ImportError:
    print("written (jsonschema not importable)")
